"""Normalisation pass: inline calls of helper functions the rule set has never seen.

The rules are anchored on the functions that existed when they were written (tables/known_functions.json, one line per
function).  A later "extract method" refactoring moves part of an anchored function into a new private helper; analysed
intraprocedurally the anchored function would then seem to have lost its guard / release / effect.  Instead of teaching every rule
to look through calls, the loader rewrites the syntax trees before anything is indexed: a call of a NEW function (not in the known
list) on `self` / `cls` / the module is replaced by the helper's body with the parameters substituted.  The rewrite preserves
behaviour (the same statements run in the same order at the same awaits), so every rule sees the program a maintainer would have
written without the helper; a helper whose calls were all inlined is dropped from the index.

Supported call positions: expression statement, right-hand side of an assignment, `return`, an `if` test / call argument that is
evaluated unconditionally and before any other call of the statement.  Anything else (helper passed as a callback, conditional
evaluation, recursion, decorated helpers, `return` inside a loop of a helper that is not itself in `return` position) is left
alone: the helper then stays an ordinary new function, and rules that enumerate writers / callers will see it as such.
"""
from __future__ import annotations

import ast
import copy
import itertools
from typing import Optional

FUNC = (ast.FunctionDef, ast.AsyncFunctionDef)
_counter = itertools.count(1)


def _simple(e: ast.AST) -> bool:
    if isinstance(e, (ast.Name, ast.Constant)):
        return True
    if isinstance(e, ast.Attribute):
        return _simple(e.value)
    return False


def _assigned_names(fn) -> set[str]:
    out = set()
    for n in ast.walk(fn):
        if isinstance(n, ast.Name) and isinstance(n.ctx, (ast.Store, ast.Del)):
            out.add(n.id)
        elif isinstance(n, ast.arg):
            out.add(n.arg)
        elif isinstance(n, FUNC) and n is not fn:
            out.add(n.name)
        elif isinstance(n, ast.ExceptHandler) and n.name:
            out.add(n.name)
    return out


def _all_names(fn) -> set[str]:
    return {n.id for n in ast.walk(fn) if isinstance(n, ast.Name)} | _assigned_names(fn)


class _Subst(ast.NodeTransformer):
    def __init__(self, mapping: dict[str, ast.AST], rename: dict[str, str]):
        self.mapping, self.rename = mapping, rename

    def visit_Name(self, n: ast.Name):
        if n.id in self.mapping and isinstance(n.ctx, ast.Load):
            return copy.deepcopy(self.mapping[n.id])
        if n.id in self.rename:
            return ast.copy_location(ast.Name(self.rename[n.id], n.ctx), n)
        return n

    def visit_ExceptHandler(self, n: ast.ExceptHandler):
        if n.name and n.name in self.rename:
            n.name = self.rename[n.name]
        self.generic_visit(n)
        return n


class _Returns(ast.NodeTransformer):
    """return v  ->  R = v; break   (only outside nested defs)"""

    def __init__(self, result: Optional[str]):
        self.result = result
        self.in_loop = 0
        self.failed = False

    def visit_FunctionDef(self, n):
        return n
    visit_AsyncFunctionDef = visit_FunctionDef
    visit_Lambda = visit_FunctionDef

    def _loop(self, n):
        self.in_loop += 1
        self.generic_visit(n)
        self.in_loop -= 1
        return n
    visit_For = visit_AsyncFor = visit_While = _loop

    def visit_Return(self, n: ast.Return):
        if self.in_loop:
            self.failed = True
            return n
        out = []
        if self.result is not None:
            out.append(ast.copy_location(ast.Assign([ast.Name(self.result, ast.Store())], n.value or ast.Constant(None), lineno=n.lineno), n))
        elif n.value is not None and not _simple(n.value):
            out.append(ast.copy_location(ast.Expr(n.value), n))
        out.append(ast.copy_location(ast.Break(), n))
        return out


def _has_return(body) -> bool:
    for st in body:
        for n in ast.walk(st):
            if isinstance(n, ast.Return):
                # ignore returns of nested defs
                return True
    return False


def _returns_outside_nested(stmts) -> list[ast.Return]:
    out = []
    todo = list(stmts)
    while todo:
        n = todo.pop()
        if isinstance(n, FUNC + (ast.Lambda, ast.ClassDef)):
            continue
        if isinstance(n, ast.Return):
            out.append(n)
        todo.extend(ast.iter_child_nodes(n))
    return out


class Inliner:
    def __init__(self, trees: dict[str, ast.Module], known: set[str]):
        self.trees = trees
        self.known = known
        # index: simple name -> list of (rel, qualname, class node or None, func node)
        self.defs: dict[str, list[tuple[str, str, Optional[ast.ClassDef], ast.AST]]] = {}
        for rel, tree in trees.items():
            self._index(rel, tree.body, None, '')
        self.new = {}
        for name, ds in self.defs.items():
            if len(ds) == 1 and f'{ds[0][0]}:{ds[0][1]}' not in known:
                self.new[name] = ds[0]
        self.inlined: dict[str, int] = {}
        self.log: list[str] = []
        # names that are (also) data attributes somewhere in the package: `x.<name>` need not be the new method / property
        self.attr_names: set[str] = set()
        for tree in trees.values():
            for n in ast.walk(tree):
                if isinstance(n, ast.Attribute) and isinstance(n.ctx, (ast.Store, ast.Del)):
                    self.attr_names.add(n.attr)
                elif isinstance(n, ast.ClassDef):
                    for b_ in n.body:
                        if isinstance(b_, ast.AnnAssign) and isinstance(b_.target, ast.Name):
                            self.attr_names.add(b_.target.id)
                        elif isinstance(b_, ast.Assign):
                            self.attr_names.update(t_.id for t_ in b_.targets if isinstance(t_, ast.Name))
        self._cur_fn = None

    def _typed(self, e: ast.AST, cname: str) -> bool:
        """the local name `e` is declared / constructed as an instance of class `cname` in the function being rewritten"""
        fn = self._cur_fn
        if fn is None or not isinstance(e, ast.Name):
            return False
        for a in fn.args.posonlyargs + fn.args.args + fn.args.kwonlyargs:
            if a.arg == e.id and a.annotation is not None:
                return ast.unparse(a.annotation).strip("'\"").split('.')[-1] == cname
        vals = []
        for n in ast.walk(fn):
            if isinstance(n, ast.AnnAssign) and isinstance(n.target, ast.Name) and n.target.id == e.id:
                return ast.unparse(n.annotation).strip("'\"").split('.')[-1] == cname
            if isinstance(n, ast.Assign) and any(isinstance(t_, ast.Name) and t_.id == e.id for t_ in n.targets):
                vals.append(n.value)
            elif isinstance(n, ast.Name) and n.id == e.id and isinstance(n.ctx, ast.Store) and not any(n in getattr(a_, 'targets', []) for a_ in ast.walk(fn) if isinstance(a_, ast.Assign)):
                return False
        return bool(vals) and all(isinstance(v, ast.Call) and ast.unparse(v.func).split('.')[-1] == cname for v in vals)

    def _instance_receiver(self, recv: ast.AST, name: str) -> bool:
        """`<recv>.<name>` is the NEW method / property `name`: recv is a plain name / attribute chain and either its class is declared
        in the function, or no object of the package has a data attribute called `name`"""
        if name not in self.new or self.new[name][2] is None or not _simple(recv) or isinstance(recv, ast.Constant):
            return False
        return self._typed(recv, self.new[name][2].name) or name not in self.attr_names

    def _index(self, rel, body, cls, prefix):
        for st in body:
            if isinstance(st, ast.ClassDef):
                self._index(rel, st.body, st, f'{prefix}{st.name}.')
            elif isinstance(st, FUNC):
                self.defs.setdefault(st.name, []).append((rel, f'{prefix}{st.name}', cls, st))
                # nested functions are not candidates, but index their names so that "unique" stays honest
                for n in ast.walk(st):
                    if isinstance(n, FUNC) and n is not st:
                        self.defs.setdefault(n.name, []).append((rel, f'{prefix}{st.name}.<locals>.{n.name}', None, n))

    # ------------------------------------------------------------------
    def run(self):
        for _ in range(3):
            changed = False
            for rel, tree in self.trees.items():
                for cls, fn in self._functions(tree):
                    if self._inline_in_function(rel, cls, fn):
                        changed = True
            if not changed:
                break
        # drop helpers without remaining references
        for name, (rel, q, cls, node) in self.new.items():
            if not self.inlined.get(name):
                continue
            refs = 0
            for tree in self.trees.values():
                for n in ast.walk(tree):
                    if (isinstance(n, ast.Attribute) and n.attr == name) or (isinstance(n, ast.Name) and n.id == name):
                        if not any(n is x for x in ast.walk(node)):
                            refs += 1
            if refs == 0:
                owner = cls.body if cls is not None else self.trees[rel].body
                if node in owner:
                    owner.remove(node)
                    if not owner:
                        owner.append(ast.Pass())
                    self.log.append(f'inlined and dropped {rel}:{q} ({self.inlined[name]} call sites)')
            else:
                self.log.append(f'inlined {rel}:{q} at {self.inlined[name]} call sites; {refs} other references remain')

    def _functions(self, tree):
        out = []

        def rec(body, cls):
            for st in body:
                if isinstance(st, ast.ClassDef):
                    rec(st.body, st)
                elif isinstance(st, FUNC):
                    out.append((cls, st))
                    # functions defined inside (decorator wrappers, callbacks): their statements are rewritten like any other
                    for n_ in ast.walk(st):
                        if isinstance(n_, FUNC) and n_ is not st:
                            out.append((cls, n_))
        rec(tree.body, None)
        return out

    # ------------------------------------------------------------------
    def _callee(self, call: ast.Call, cls: Optional[ast.ClassDef], rel: str):
        """(helper def tuple, receiver kind) if `call` is an inlinable call of a new helper."""
        f = call.func
        name = recv = None
        if isinstance(f, ast.Attribute):
            name = f.attr
            r = ast.unparse(f.value)
            if r in ('self', 'cls', 'self.__class__', 'type(self)') or (cls is not None and r == cls.name):
                recv = r
            elif name in self.new and self.new[name][2] is not None and r == self.new[name][2].name:
                recv = r
            elif self._instance_receiver(f.value, name) and not (r[:1].isupper() and '.' not in r):
                recv = r
                call._instance_recv = True      # type: ignore[attr-defined]
            elif cls is not None and r[:1].isupper() and r != cls.name and call.args and isinstance(call.args[0], ast.Name) and call.args[0].id == 'self':
                recv = 'self'       # explicit delegation, decided below
            else:
                return None
        elif isinstance(f, ast.Name):
            name = f.id
            recv = ''
        explicit = None
        if isinstance(f, ast.Attribute) and isinstance(f.value, ast.Name) and cls is not None and f.value.id != cls.name and call.args and \
                isinstance(call.args[0], ast.Name) and call.args[0].id == 'self':
            # `OtherClass.method(self, ..)`: the body of that very function runs on this object (explicit delegation to a sibling's implementation);
            # inlined whether the rule set knows the function or not -- at this call site it is a helper
            cands = [d_ for d_ in self.defs.get(name, []) if d_[2] is not None and d_[2].name == f.value.id and not d_[3].decorator_list]
            if len(cands) == 1:
                explicit = cands[0]
                recv = 'self'
        if explicit is None and name not in self.new:
            return None
        d = explicit if explicit is not None else self.new[name]
        call._explicit_self = explicit is not None      # type: ignore[attr-defined]
        hrel, hq, hcls, hnode = d
        decs = [ast.unparse(x) for x in hnode.decorator_list]
        if any(x not in ('staticmethod', 'classmethod') for x in decs):
            return None
        if recv == '' and hcls is not None:
            return None
        if recv != '' and hcls is None:
            return None
        if any(isinstance(n, (ast.Yield, ast.YieldFrom)) for n in ast.walk(hnode)):
            return None
        if call.keywords and any(k.arg is None for k in call.keywords):
            return None
        if any(isinstance(a, ast.Starred) for a in call.args):
            return None
        if hnode.args.vararg or hnode.args.kwarg:
            return None
        return d, recv, decs

    def _inline_in_function(self, rel: str, cls, fn) -> bool:
        self._cur_fn = fn
        changed = self._inline_expression_helpers(rel, cls, fn)
        return self._inline_in_body(rel, cls, fn, fn.body) or changed

    def _inline_expression_helpers(self, rel, cls, fn) -> bool:
        """A helper whose body is a single `return <expr>` is an abbreviation of that expression: its calls are replaced by the expression
        wherever they stand (also in conditionally evaluated positions), when every argument is a name / attribute chain / constant."""
        inl = self
        changed = [False]

        def expr_of(call: ast.Call, awaited: bool):
            r = inl._callee(call, cls, rel)
            if r is None:
                return None
            (hrel, hq, hcls, hnode), recv, decs = r
            if hnode is fn:
                return None
            body = [s_ for s_ in hnode.body if not (isinstance(s_, ast.Expr) and isinstance(s_.value, ast.Constant))]
            if len(body) != 1 or not isinstance(body[0], ast.Return) or body[0].value is None:
                return None
            if isinstance(hnode, ast.AsyncFunctionDef) != awaited:
                return None
            params = [a.arg for a in hnode.args.posonlyargs + hnode.args.args]
            kwonly = [a.arg for a in hnode.args.kwonlyargs]
            defaults = dict(zip(params[len(params) - len(hnode.args.defaults):], hnode.args.defaults))
            defaults.update({a: d for a, d in zip(kwonly, hnode.args.kw_defaults) if d is not None})
            mapping: dict[str, ast.AST] = {}
            if 'staticmethod' not in decs and hcls is not None:
                if not params:
                    return None
                first = params.pop(0)
                if 'classmethod' in decs:
                    mapping[first] = ast.parse({'self': 'self.__class__', 'cls': 'cls'}.get(recv, recv), mode='eval').body
                elif getattr(call, '_instance_recv', False):
                    mapping[first] = ast.parse(recv, mode='eval').body
                elif recv != 'self':
                    return None
                else:
                    mapping[first] = ast.Name('self', ast.Load())
            if len(call.args) > len(params):
                return None
            args = dict(zip(params, call.args))
            for k_ in call.keywords:
                if k_.arg in args or k_.arg not in params + kwonly:
                    return None
                args[k_.arg] = k_.value
            for p_ in params + kwonly:
                if p_ not in args:
                    if p_ not in defaults:
                        return None
                    args[p_] = defaults[p_]
            e = _unwalrus(copy.deepcopy(body[0].value))
            for p_, a_ in args.items():
                uses = sum(1 for n_ in ast.walk(e) if isinstance(n_, ast.Name) and n_.id == p_)
                if not (_simple(a_) or (uses <= 1 and _pure(a_))):
                    return None
                mapping[p_] = a_
            # names the expression binds (comprehension variables, walrus) must not capture names of the arguments
            bound = {n_.id for n_ in ast.walk(e) if isinstance(n_, ast.Name) and isinstance(n_.ctx, ast.Store)}
            if any(isinstance(n_, ast.Name) and n_.id in bound for a_ in args.values() for n_ in ast.walk(a_)):
                return None
            if any(isinstance(n_, (ast.Lambda, ast.Yield, ast.YieldFrom)) for n_ in ast.walk(e)):
                return None
            out = _Subst(mapping, {}).visit(e)
            inl._count(hnode)
            return out

        class T(ast.NodeTransformer):
            def visit_FunctionDef(self, n):
                return n if n is not fn else self.generic_visit(n)
            visit_AsyncFunctionDef = visit_FunctionDef

            def visit_Lambda(self, n):
                return n

            def visit_Await(self, n: ast.Await):
                if isinstance(n.value, ast.Call):
                    e = expr_of(n.value, True)
                    if e is not None:
                        changed[0] = True
                        return ast.copy_location(self.visit(e) if False else e, n)
                return self.generic_visit(n)

            def visit_Call(self, n: ast.Call):
                self.generic_visit(n)
                e = expr_of(n, False)
                if e is not None:
                    changed[0] = True
                    return ast.copy_location(e, n)
                return n

            def visit_Attribute(self, n: ast.Attribute):
                # `self.<p>` where <p> is a NEW read-only property whose body is a single `return <expr>`: an abbreviation of that expression
                self.generic_visit(n)
                own = isinstance(n.value, ast.Name) and n.value.id == 'self' and cls is not None
                if isinstance(n.ctx, ast.Load) and n.attr in inl.new and (own or inl._instance_receiver(n.value, n.attr)):
                    hrel, hq, hcls, hnode = inl.new[n.attr]
                    if hcls is not None and (not own or hcls is cls or hcls.name in [ast.unparse(b_) for b_ in cls.bases]) and [ast.unparse(d_) for d_ in hnode.decorator_list] == ['property'] \
                            and hnode is not fn and not isinstance(hnode, ast.AsyncFunctionDef):
                        body = [s_ for s_ in hnode.body if not (isinstance(s_, ast.Expr) and isinstance(s_.value, ast.Constant))]
                        ps = [a_.arg for a_ in hnode.args.args]
                        if len(body) == 1 and isinstance(body[0], ast.Return) and body[0].value is not None:
                            body = [ast.Return(_unwalrus(copy.deepcopy(body[0].value)))]
                        if len(body) == 1 and isinstance(body[0], ast.Return) and body[0].value is not None and len(ps) == 1 and \
                                not any(isinstance(x_, (ast.Lambda, ast.Yield, ast.YieldFrom, ast.Await, ast.NamedExpr)) for x_ in ast.walk(body[0].value)):
                            e = _Subst({ps[0]: copy.deepcopy(n.value)}, {}).visit(copy.deepcopy(body[0].value))
                            inl._count(hnode)
                            changed[0] = True
                            return ast.copy_location(e, n)
                return n
        T().visit(fn)
        if changed[0]:
            ast.fix_missing_locations(fn)
        return changed[0]

    def _inline_in_body(self, rel, cls, fn, body: list) -> bool:
        changed = False
        i = 0
        while i < len(body):
            st = body[i]
            # recurse into compound statements first
            for fld in ('body', 'orelse', 'finalbody'):
                sub = getattr(st, fld, None)
                if isinstance(sub, list) and sub and isinstance(sub[0], ast.stmt) and not isinstance(st, FUNC + (ast.ClassDef,)):
                    if self._inline_in_body(rel, cls, fn, sub):
                        changed = True
            for h in getattr(st, 'handlers', []) or []:
                if self._inline_in_body(rel, cls, fn, h.body):
                    changed = True
            if hasattr(st, 'cases'):
                for c in st.cases:
                    if self._inline_in_body(rel, cls, fn, c.body):
                        changed = True
            gen_stmts = self._expand_with(st, cls, rel, fn)
            if gen_stmts is None:
                gen_stmts = self._expand_generator(st, cls, rel, fn)
            if gen_stmts is None:
                gen_stmts = self._materialise_generator(st, cls, rel, fn)
            if gen_stmts is not None:
                body[i:i + 1] = gen_stmts
                changed = True
                self._guard = getattr(self, '_guard', 0) + 1
                if self._guard > 500:
                    break
                continue
            site = self._find_site(st, cls, rel, fn)
            if site is None:
                i += 1
                continue
            new_stmts = self._expand(st, site, fn, body[i + 1] if i + 1 < len(body) else None)
            if new_stmts is None:
                i += 1
                continue
            body[i:i + 1] = new_stmts
            changed = True
            # re-examine from the same index (the inlined body may contain further helper calls)
            guard = getattr(self, '_guard', 0) + 1
            self._guard = guard
            if guard > 500:
                break
        return changed

    def _find_site(self, st: ast.stmt, cls, rel, fn):
        """First helper call in `st` that is evaluated unconditionally before any other call."""
        if isinstance(st, FUNC + (ast.ClassDef,)):
            return None
        if isinstance(st, ast.Expr):
            roots = [st.value]
        elif isinstance(st, (ast.Assign, ast.AugAssign, ast.AnnAssign)):
            roots = [st.value] if st.value is not None else []
        elif isinstance(st, ast.Return):
            roots = [st.value] if st.value is not None else []
        elif isinstance(st, ast.If):
            roots = [st.test]
        elif isinstance(st, (ast.For, ast.AsyncFor)):
            roots = [st.iter]
        else:
            return None
        for root in roots:
            r = self._first_call(root, lambda c_: self._callee(c_, cls, rel) is not None)
            if r is None:
                continue
            call, awaited_node = r
            c = self._callee(call, cls, rel)
            if c is None:
                continue
            (hrel, hq, hcls, hnode), recv, decs = c
            if hnode is fn:
                continue   # recursion
            is_async = isinstance(hnode, ast.AsyncFunctionDef)
            if is_async != (awaited_node is not None):
                continue
            return call, awaited_node, hnode, hcls, recv, decs, root
        return None

    def _first_call(self, e: ast.AST, is_helper=lambda c: False):
        """The call that is evaluated first in expression `e`, provided it is reached unconditionally; (call, enclosing Await or None)."""
        def rec(n, awaited):
            if isinstance(n, ast.Await):
                return rec(n.value, n)
            if isinstance(n, ast.Call):
                if is_helper(n):
                    return (n, awaited)      # its own arguments are bound (in order) in front of the inlined body
                # receiver / earlier arguments are evaluated before the call itself
                parts = [n.func.value] if isinstance(n.func, ast.Attribute) else []
                parts += list(n.args) + [k.value for k in n.keywords]
                for p in parts:
                    if _simple(p):
                        continue
                    r = rec(p, None)
                    return r            # first non-simple operand decides (found or not)
                return (n, awaited)
            if isinstance(n, ast.UnaryOp):
                return rec(n.operand, None)
            if isinstance(n, ast.Compare):
                if not _simple(n.left):
                    return rec(n.left, None)
                for c in n.comparators:
                    if not _simple(c):
                        return rec(c, None)
                return None
            if isinstance(n, ast.BinOp):
                if not _simple(n.left):
                    return rec(n.left, None)
                return rec(n.right, None)
            if isinstance(n, (ast.Tuple, ast.List, ast.Set)):
                for x in n.elts:
                    if not _simple(x):
                        return rec(x, None)
                return None
            if isinstance(n, (ast.Attribute, ast.Subscript, ast.Starred)):
                return rec(n.value, None)
            if isinstance(n, ast.BoolOp):
                return rec(n.values[0], None)      # only the first operand is unconditional
            return None
        return rec(e, None)

    def _expand(self, st: ast.stmt, site, fn, nxt: Optional[ast.stmt] = None) -> Optional[list[ast.stmt]]:
        call, awaited_node, hnode, hcls, recv, decs, root = site
        k = next(_counter)
        h = copy.deepcopy(hnode)
        params = [a.arg for a in h.args.posonlyargs + h.args.args]
        kwonly = [a.arg for a in h.args.kwonlyargs]
        defaults = dict(zip(params[len(params) - len(h.args.defaults):], h.args.defaults))
        defaults.update({a: d for a, d in zip(kwonly, h.args.kw_defaults) if d is not None})
        mapping: dict[str, ast.AST] = {}
        bind_first = None
        if 'staticmethod' not in decs and hcls is not None:
            if not params:
                return None
            bind_first = params.pop(0)
            mapping[bind_first] = ast.parse(recv if 'classmethod' not in decs else
                                            {'self': 'self.__class__', 'cls': 'cls'}.get(recv, recv), mode='eval').body
            if 'classmethod' not in decs and recv != 'self' and not getattr(call, '_instance_recv', False):
                return None
        args: dict[str, ast.AST] = {}
        call_args = call.args[1:] if getattr(call, '_explicit_self', False) else call.args
        for p, a in zip(params, call_args):
            args[p] = a
        if len(call_args) > len(params):
            return None
        for kw_ in call.keywords:
            if kw_.arg in args or kw_.arg not in params + kwonly:
                return None
            args[kw_.arg] = kw_.value
        for p in params + kwonly:
            if p not in args:
                if p not in defaults:
                    return None
                args[p] = defaults[p]
        caller_names = _all_names(fn)
        helper_assigned = _assigned_names(h) - set(params) - set(kwonly) - ({bind_first} if bind_first else set())
        stores = {n.id for n in ast.walk(h) if isinstance(n, ast.Name) and isinstance(n.ctx, (ast.Store, ast.Del))}
        pre: list[ast.stmt] = []
        rename: dict[str, str] = {}
        first_stmt = next((s_ for s_ in h.body if not (isinstance(s_, ast.Expr) and isinstance(s_.value, ast.Constant))), None)
        for p in params + kwonly:
            a = args[p]
            if _simple(a) and p not in stores:
                mapping[p] = a
            elif p not in stores and _pure(a) and _used_once_in_header(h, first_stmt, p):
                mapping[p] = a      # `f(xs[:n])` with `for x in xs_param:` as the helper's first statement: evaluated at the same point
            else:
                nm = p if p not in caller_names else f'{p}__inl{k}'
                if nm != p:
                    rename[p] = nm
                pre.append(ast.copy_location(ast.Assign([ast.Name(nm, ast.Store())], copy.deepcopy(a), lineno=call.lineno), call))
        # a helper local may keep its name when the caller only uses that name as the target of this very assignment
        # (`indices = self._find_indices(..)` with a helper local `indices`): the statement overwrites it anyway
        own_target = None
        if isinstance(st, ast.Assign) and len(st.targets) == 1 and isinstance(st.targets[0], ast.Name) and st.value is (awaited_node or call):
            own_target = st.targets[0].id
            if any(isinstance(n, ast.Name) and n.id == own_target and isinstance(n.ctx, ast.Load) for a in (list(args.values())) for n in ast.walk(a)):
                own_target = None
        # copy propagation: `X = self._helper(..)` where the helper returns its own local `v` on every path: call that local X
        h_rets = _returns_outside_nested(h.body)
        h_names = _all_names(h)
        if own_target and h_rets and all(isinstance(r.value, ast.Name) and r.value.id == h_rets[0].value.id for r in h_rets if True) and \
                all(r.value is not None for r in h_rets):
            v = h_rets[0].value.id
            if v in helper_assigned and v != own_target and own_target not in h_names:
                rename[v] = own_target
        for nme in helper_assigned:
            if nme in rename:
                continue
            if nme in caller_names and nme != own_target and _live_after(fn, st, nme):
                rename[nme] = f'{nme}__inl{k}'
        body = [s for s in h.body]
        if body and isinstance(body[0], ast.Expr) and isinstance(body[0].value, ast.Constant) and isinstance(body[0].value.value, str):
            body = body[1:]      # docstring
        sub = _Subst(mapping, rename)
        body = [sub.visit(s) for s in body]
        body = [x for s in body for x in (s if isinstance(s, list) else [s])]
        body = _fold_constant_ifs(body)
        rets = _returns_outside_nested(body)
        whole = awaited_node if awaited_node is not None else call
        # ---- return position: splice the body as it is
        if isinstance(st, ast.Return) and st.value is whole:
            out = pre + body
            if not (body and isinstance(body[-1], (ast.Return, ast.Raise))):
                out.append(ast.copy_location(ast.Return(None), st))
            self._count(hnode)
            return [ast.fix_missing_locations(s) for s in out] or [ast.Pass()]
        needs_value = not (isinstance(st, ast.Expr) and st.value is whole)
        # `X = helper(..)`: the result is written to X directly (X is not read by the arguments, so every X in the body is the
        # helper's own local, dead after its return)
        result_name = (own_target or f'__inl{k}') if needs_value else None
        result_expr: Optional[ast.AST] = None
        if needs_value and own_target and isinstance(nxt, ast.If) and _only_depends_on(nxt.test, own_target):
            # `X = helper(..); if t(X): <terminating branch>`: a `return <const>` of the helper (anywhere, also inside its loops) that
            # selects a terminating branch IS that branch
            for r in _returns_outside_nested(body):
                if r.value is not None and not isinstance(r.value, ast.Constant):
                    continue
                cv = None if r.value is None else r.value.value
                branch = nxt.body if _eval_test(nxt.test, own_target, cv) else nxt.orelse
                if not branch or not _terminates(branch) or any(isinstance(n, (ast.Break, ast.Continue)) for b_ in branch for n in ast.walk(b_)):
                    continue
                ph = ast.copy_location(ast.Raise(None, None), r)
                ph._splice = [ast.copy_location(ast.Assign([ast.Name(own_target, ast.Store())], ast.Constant(cv), lineno=r.lineno), r)] + \
                    [copy.deepcopy(x) for x in branch]     # type: ignore[attr-defined]
                _replace_stmt(body, r, [ph])
        structured = _structure(body)
        if structured is not None:
            body = structured
            tails = _tailify(body, result_name)          # every `return v` (now in tail position) became `R = v` / nothing
            falls = not _terminated_by_tails(body, tails)
            values = [t.value for t in tails if isinstance(t, ast.Assign)]
            out = list(pre)
            if needs_value:
                consts = all(isinstance(v, ast.Constant) for v in values) and not falls or \
                    (all(isinstance(v, ast.Constant) for v in values) and falls)
                if isinstance(st, ast.If) and st.test is not None and consts and _only_depends_on(st.test, whole) and tails and not (isinstance(st, ast.If) and _has_elif_chain_dependency(st)):
                    # jump threading: `BLOCK; if t(R): S1 else: S2` with constant R at every exit of BLOCK
                    ok = True
                    for t in tails:
                        cval = t.value.value
                        branch = st.body if _eval_test(st.test, whole, cval) else st.orelse
                        _replace_stmt(body, t, [copy.deepcopy(x) for x in branch])
                    if falls:
                        branch = st.body if _eval_test(st.test, whole, None) else st.orelse
                        body.extend(copy.deepcopy(x) for x in branch)
                    self._count(hnode)
                    return [ast.fix_missing_locations(x) for x in _splice(out + body)] or [ast.Pass()]
                if len(tails) == 1 and not falls and _simple(values[0]) and body and body[-1] is tails[0]:
                    body.pop()
                    result_expr = values[0]
                else:
                    if falls:
                        out.append(ast.copy_location(ast.Assign([ast.Name(result_name, ast.Store())], ast.Constant(None), lineno=call.lineno), call))
                    result_expr = ast.Name(result_name, ast.Load())
                out += body
                _replace(st, whole, result_expr)
                if not (isinstance(st, ast.Assign) and len(st.targets) == 1 and isinstance(st.targets[0], ast.Name) and
                        isinstance(st.value, ast.Name) and st.value.id == st.targets[0].id):
                    out.append(st)
            else:
                out += body
            self._count(hnode)
            return [ast.fix_missing_locations(x) for x in _splice(out)] or [ast.Pass()]
        # ---- fallback: early returns that cannot be structured -> one-trip loop (marked synthetic)
        tr = _Returns(result_name)
        body2 = []
        for s_ in body:
            r = tr.visit(s_)
            body2.extend(r if isinstance(r, list) else [r])
        if tr.failed:
            return None
        block = []
        if needs_value:
            block.append(ast.copy_location(ast.Assign([ast.Name(result_name, ast.Store())], ast.Constant(None), lineno=call.lineno), call))
            result_expr = ast.Name(result_name, ast.Load())
        if not (body2 and isinstance(body2[-1], (ast.Break, ast.Raise))):
            body2.append(ast.copy_location(ast.Break(), call))
        loop = ast.copy_location(ast.While(ast.Constant(True), body2, []), call)
        loop._synthetic = True  # type: ignore[attr-defined]
        block.append(loop)
        out = pre + block
        if needs_value:
            _replace(st, whole, result_expr)
            out.append(st)
        self._count(hnode)
        return [ast.fix_missing_locations(s_) for s_ in _splice(out)] or [ast.Pass()]

    def _expand_with(self, st: ast.stmt, cls, rel, fn) -> Optional[list[ast.stmt]]:
        """`with cm(a..) [as x]: BODY` where cm is a NEW function decorated with contextlib.contextmanager (asynccontextmanager for
        `async with`): the statement runs the generator up to its `yield`, then BODY, and an exception (or return / break) leaving BODY
        is raised (or resumes) at that `yield` -- which is what the generator's text says with BODY in place of the `yield`:
              PRE; try: yield V finally: POST      ->      PRE; try: [x = V;] BODY finally: POST
        Only the plain case: one `yield`, as a statement, not inside a loop; no `return` in the generator."""
        if not isinstance(st, (ast.With, ast.AsyncWith)) or len(st.items) != 1:
            return None
        item = st.items[0]
        call = item.context_expr
        if not isinstance(call, ast.Call) or (item.optional_vars is not None and not isinstance(item.optional_vars, ast.Name)):
            return None
        f = call.func
        name = f.attr if isinstance(f, ast.Attribute) else f.id if isinstance(f, ast.Name) else None
        if isinstance(f, ast.Name) and name not in self.new:
            return self._expand_with_class(st, call, fn)
        if name not in self.new:
            return None
        hrel, hq, hcls, hnode = self.new[name]
        decs = [ast.unparse(x).split('.')[-1] for x in hnode.decorator_list]
        want = 'asynccontextmanager' if isinstance(st, ast.AsyncWith) else 'contextmanager'
        if decs != [want] or isinstance(hnode, ast.AsyncFunctionDef) != isinstance(st, ast.AsyncWith) or hnode is fn:
            return None
        recv = ast.unparse(f.value) if isinstance(f, ast.Attribute) else ''
        if (recv == '') != (hcls is None) or (recv and recv != 'self'):
            return None
        inner = [n for n in ast.walk(hnode) if n is not hnode]
        if any(isinstance(n, FUNC + (ast.Lambda, ast.Return, ast.YieldFrom, ast.ClassDef)) for n in inner):
            return None
        yields = [n for n in inner if isinstance(n, ast.Yield)]
        ystmts = [n for n in inner if isinstance(n, ast.Expr) and isinstance(n.value, ast.Yield)]
        if len(yields) != 1 or len(ystmts) != 1:
            return None
        if any(isinstance(n, (ast.For, ast.While, ast.AsyncFor)) and any(y is ystmts[0] for y in ast.walk(n)) for n in inner):
            return None
        if item.optional_vars is not None and ystmts[0].value.value is None:
            return None
        if any(k_.arg is None for k_ in call.keywords) or any(isinstance(a, ast.Starred) for a in call.args) or hnode.args.vararg or hnode.args.kwarg:
            return None
        k = next(_counter)
        h = copy.deepcopy(hnode)
        params = [a.arg for a in h.args.posonlyargs + h.args.args]
        kwonly = [a.arg for a in h.args.kwonlyargs]
        defaults = dict(zip(params[len(params) - len(h.args.defaults):], h.args.defaults))
        defaults.update({a: d for a, d in zip(kwonly, h.args.kw_defaults) if d is not None})
        mapping: dict[str, ast.AST] = {}
        if hcls is not None:
            if not params:
                return None
            mapping[params.pop(0)] = ast.Name('self', ast.Load())
        if len(call.args) > len(params):
            return None
        args = dict(zip(params, call.args))
        for kw_ in call.keywords:
            if kw_.arg in args or kw_.arg not in params + kwonly:
                return None
            args[kw_.arg] = kw_.value
        for p_ in params + kwonly:
            if p_ not in args:
                if p_ not in defaults:
                    return None
                args[p_] = defaults[p_]
        caller_names = _all_names(fn)
        stores = {n.id for n in ast.walk(h) if isinstance(n, ast.Name) and isinstance(n.ctx, (ast.Store, ast.Del))}
        pre: list[ast.stmt] = []
        rename: dict[str, str] = {}
        body_stores = {n.id for b_ in st.body for n in ast.walk(b_) if isinstance(n, ast.Name) and isinstance(n.ctx, (ast.Store, ast.Del))}
        for p_, a_ in args.items():
            free = {n.id for n in ast.walk(a_) if isinstance(n, ast.Name)}
            if _simple(a_) and p_ not in stores and not (free & body_stores):
                mapping[p_] = a_
            else:
                nm = p_ if p_ not in caller_names else f'{p_}__inl{k}'
                if nm != p_:
                    rename[p_] = nm
                pre.append(ast.copy_location(ast.Assign([ast.Name(nm, ast.Store())], copy.deepcopy(a_), lineno=call.lineno), call))
        for n_ in _assigned_names(h) - set(params) - set(kwonly):
            if n_ in caller_names:
                rename[n_] = f'{n_}__inl{k}'
        body = [s_ for s_ in h.body]
        if body and isinstance(body[0], ast.Expr) and isinstance(body[0].value, ast.Constant) and isinstance(body[0].value.value, str):
            body = body[1:]
        sub = _Subst(mapping, rename)
        body = [sub.visit(s_) for s_ in body]

        def rewrite(stmts: list) -> list:
            out = []
            for s_ in stmts:
                if isinstance(s_, ast.Expr) and isinstance(s_.value, ast.Yield):
                    if item.optional_vars is not None:
                        out.append(ast.copy_location(ast.Assign([ast.Name(item.optional_vars.id, ast.Store())], s_.value.value, lineno=st.lineno), st))
                    out.extend(st.body)
                    continue
                for fld in ('body', 'orelse', 'finalbody'):
                    subl = getattr(s_, fld, None)
                    if isinstance(subl, list) and subl and isinstance(subl[0], ast.stmt):
                        setattr(s_, fld, rewrite(subl))
                for h_ in getattr(s_, 'handlers', []) or []:
                    h_.body = rewrite(h_.body)
                out.append(s_)
            return out
        out = pre + rewrite(body)
        self._count(hnode)
        return [ast.fix_missing_locations(x) for x in out] or [ast.Pass()]

    def _expand_lock_class(self, st, call: ast.Call, cand) -> Optional[list[ast.stmt]]:
        """`async with C(a) as v: BODY` where the NEW class C wraps one lock:
              __init__:   self._f = <name / attribute chain over the parameters>  (only such stores)
              __aenter__: await self._lock.acquire() ; [return <chain over self fields>]
              __aexit__:  self._lock.release()
        is `async with <lock>: v = <the returned chain, read after the lock was obtained>; BODY` -- asyncio.Lock's own __aenter__ / __aexit__
        are exactly acquire / release.  A value read in __init__ stays a value read BEFORE the wait (it is bound in front of the statement)."""
        rel_, c_ = cand
        if not isinstance(st, ast.AsyncWith) or c_.bases:
            return None
        meths = {m.name: m for m in c_.body if isinstance(m, FUNC)}
        if set(meths) != {'__init__', '__aenter__', '__aexit__'} or any(f'{rel_}:{c_.name}.{m}' in self.known for m in meths):
            return None

        def stmts(m):
            return [s_ for s_ in m.body if not (isinstance(s_, ast.Expr) and isinstance(s_.value, ast.Constant))]
        init, enter, exit_ = meths['__init__'], meths['__aenter__'], meths['__aexit__']
        params = [a.arg for a in init.args.args][1:]
        if call.keywords or len(call.args) != len(params) or not all(_simple(a) for a in call.args) or init.args.vararg or init.args.kwarg:
            return None
        argmap = dict(zip(params, call.args))
        fields: dict[str, ast.AST] = {}
        pre: list[ast.stmt] = []
        k = next(_counter)
        for s_ in stmts(init):
            t_ = s_.targets[0] if isinstance(s_, ast.Assign) and len(s_.targets) == 1 else s_.target if isinstance(s_, ast.AnnAssign) else None
            if not (isinstance(t_, ast.Attribute) and isinstance(t_.value, ast.Name) and t_.value.id == 'self' and s_.value is not None and _simple(s_.value)
                    and not isinstance(s_.value, ast.Constant)):
                return None
            v_ = _Subst(dict(argmap), {}).visit(copy.deepcopy(s_.value))
            if isinstance(s_.value, ast.Name):
                fields[t_.attr] = v_                       # the parameter itself
            else:
                # an attribute chain read in __init__: evaluated when the manager is created, i.e. before the wait
                tmp = f'{t_.attr.lstrip("_")}__inl{k}'
                pre.append(ast.copy_location(ast.Assign([ast.Name(tmp, ast.Store())], v_, lineno=st.lineno), st))
                fields[t_.attr] = ast.Name(tmp, ast.Load())
        eb = stmts(enter)
        if not eb or not (isinstance(eb[0], ast.Expr) and isinstance(eb[0].value, ast.Await) and isinstance(eb[0].value.value, ast.Call) and
                          isinstance(eb[0].value.value.func, ast.Attribute) and eb[0].value.value.func.attr == 'acquire' and not eb[0].value.value.args):
            return None
        lock_attr = ast.unparse(eb[0].value.value.func.value)
        ret = None
        if len(eb) == 2 and isinstance(eb[1], ast.Return):
            ret = eb[1].value
        elif len(eb) != 1:
            return None
        xb = stmts(exit_)
        if not (len(xb) == 1 and isinstance(xb[0], ast.Expr) and isinstance(xb[0].value, ast.Call) and ast.unparse(xb[0].value) == f'{lock_attr}.release()'):
            return None

        class R(ast.NodeTransformer):
            def __init__(self):
                self.bad = False

            def visit_Attribute(self, n):
                if isinstance(n.value, ast.Name) and n.value.id == 'self':
                    if n.attr in fields and isinstance(n.ctx, ast.Load):
                        return copy.deepcopy(fields[n.attr])
                    self.bad = True
                return self.generic_visit(n)
        r = R()
        # the lock: the object that `self._lock` named when the manager was created IS the lock of the transfer (a lock attribute is not
        # rebound while someone waits for it), so the statement names it by its chain; every other chain keeps its pre-wait binding
        lf = lock_attr.split('.', 1)[1] if lock_attr.startswith('self.') else None
        if lf in fields and isinstance(fields[lf], ast.Name) and fields[lf].id.endswith(f'__inl{k}'):
            tmp_name = fields[lf].id
            for p_ in list(pre):
                if p_.targets[0].id == tmp_name:
                    fields[lf] = p_.value
                    pre.remove(p_)
        lock_expr = r.visit(ast.parse(lock_attr, mode='eval').body)
        body = list(st.body)
        var = st.items[0].optional_vars
        if var is not None:
            if ret is None or not isinstance(var, ast.Name):
                return None
            body = [ast.copy_location(ast.Assign([ast.Name(var.id, ast.Store())], r.visit(copy.deepcopy(ret)), lineno=st.lineno), st)] + body
        if r.bad:
            return None
        # the lock chain itself was read in __init__ too: the SAME lock object either way (the attribute is not rebound while waiting)
        out = ast.AsyncWith([ast.withitem(lock_expr, None)], body)
        self.inlined[c_.name] = self.inlined.get(c_.name, 0) + 1
        return [ast.fix_missing_locations(x) for x in pre + [ast.copy_location(out, st)]]

    def _expand_with_class(self, st, call: ast.Call, fn) -> Optional[list[ast.stmt]]:
        """`[async] with C(a..): BODY` where C is a NEW class whose __init__ only stores its parameters, whose __[a]enter__ does nothing
        but return, and whose __[a]exit__ is `if exc_type is not None: STMTS` (falling off the end: the exception is not swallowed):
              try: BODY  except BaseException: STMTS[self._x := a]; raise
        or, when __[a]exit__ does not look at the exception at all:   try: BODY finally: STMTS."""
        cands = [(rel_, c_) for rel_, t_ in self.trees.items() for c_ in t_.body if isinstance(c_, ast.ClassDef) and c_.name == call.func.id]
        if len(cands) != 1:
            return None
        locked = self._expand_lock_class(st, call, cands[0])
        if locked is not None:
            return locked
        if st.items[0].optional_vars is not None:
            return None
        rel_, c_ = cands[0]
        is_async = isinstance(st, ast.AsyncWith)
        en, ex = ('__aenter__', '__aexit__') if is_async else ('__enter__', '__exit__')
        meths = {m.name: m for m in c_.body if isinstance(m, FUNC)}
        if any(f'{rel_}:{c_.name}.{m}' in self.known for m in meths) or not {'__init__', en, ex} <= set(meths) or c_.bases:
            return None
        init, enter, exit_ = meths['__init__'], meths[en], meths[ex]

        def stmts(m):
            return [s_ for s_ in m.body if not (isinstance(s_, ast.Expr) and isinstance(s_.value, ast.Constant))]
        fields: dict[str, str] = {}
        for s_ in stmts(init):
            t_ = s_.targets[0] if isinstance(s_, ast.Assign) and len(s_.targets) == 1 else s_.target if isinstance(s_, ast.AnnAssign) else None
            if not (isinstance(t_, ast.Attribute) and isinstance(t_.value, ast.Name) and t_.value.id == 'self' and isinstance(s_.value, ast.Name)):
                return None
            fields[t_.attr] = s_.value.id
        if any(not isinstance(s_, (ast.Return, ast.Pass)) or any(isinstance(n_, (ast.Await, ast.Call)) for n_ in ast.walk(s_)) for s_ in stmts(enter)):
            return None
        params = [a.arg for a in init.args.args][1:]
        if call.keywords or len(call.args) != len(params) or not all(_simple(a) for a in call.args) or init.args.vararg or init.args.kwarg:
            return None
        argmap = dict(zip(params, call.args))
        eparams = [a.arg for a in exit_.args.args][1:]
        ebody = stmts(exit_)
        if any(isinstance(n_, (ast.Return, ast.Yield)) for s_ in ebody for n_ in ast.walk(s_)):
            return None
        uses_exc = any(isinstance(n_, ast.Name) and n_.id in eparams for s_ in ebody for n_ in ast.walk(s_))
        if uses_exc:
            if not (len(ebody) == 1 and isinstance(ebody[0], ast.If) and not ebody[0].orelse and eparams and ast.unparse(ebody[0].test) == f'{eparams[0]} is not None'
                    and not any(isinstance(n_, ast.Name) and n_.id in eparams for s_ in ebody[0].body for n_ in ast.walk(s_))):
                return None
            ebody = ebody[0].body
        # stores of names in the body that the arguments read would change what `self._x` means at exit
        body_stores = {n.id for b_ in st.body for n in ast.walk(b_) if isinstance(n, ast.Name) and isinstance(n.ctx, (ast.Store, ast.Del))}
        if any(isinstance(n, ast.Name) and n.id in body_stores for a in call.args for n in ast.walk(a)):
            return None

        class R(ast.NodeTransformer):
            def __init__(self):
                self.bad = False

            def visit_Attribute(self, n):
                if isinstance(n.value, ast.Name) and n.value.id == 'self':
                    if n.attr in fields and isinstance(n.ctx, ast.Load):
                        return copy.deepcopy(argmap[fields[n.attr]])
                    self.bad = True
                return self.generic_visit(n)

            def visit_Name(self, n):
                if n.id == 'self':
                    self.bad = True
                return n
        r = R()
        ebody = [r.visit(copy.deepcopy(s_)) for s_ in ebody]
        if r.bad:
            return None
        if uses_exc:
            handler = ast.ExceptHandler(ast.Name('BaseException', ast.Load()), None, ebody + [ast.Raise(None, None)])
            out = ast.Try(st.body, [handler], [], [])
        else:
            out = ast.Try(st.body, [], [], ebody)
        self.inlined[c_.name] = self.inlined.get(c_.name, 0) + 1
        return [ast.fix_missing_locations(ast.copy_location(out, st))]

    def _materialise_generator(self, st: ast.stmt, cls, rel, fn) -> Optional[list[ast.stmt]]:
        """`.. zip(xs, G(a)) ..` where G is a NEW module-level generator function that only computes (bounded `for` loops, `if`, local
        assignments, `yield v`, `yield from E`; no while, no await, no stores outside its locals): the values it would hand out lazily
        are the list it would fill eagerly --
              __gN = [];  <body of G with `yield v` -> __gN.append(v), `yield from E` -> __gN.extend(E)>;   .. zip(xs, __gN) ..
        Only where the call is evaluated once per execution of the statement (not inside a lambda or a comprehension body)."""
        if not isinstance(st, (ast.Assign, ast.AnnAssign, ast.Return, ast.Expr)) or getattr(st, 'value', None) is None:
            return None
        from .normalise import _evaluated_repeatedly
        site = None
        for c in ast.walk(st.value):
            if isinstance(c, ast.Call) and isinstance(c.func, ast.Name) and c.func.id in self.new and c is not st.value:
                hrel, hq, hcls, hnode = self.new[c.func.id]
                if hcls is None and isinstance(hnode, ast.FunctionDef) and not hnode.decorator_list and hnode is not fn and \
                        any(isinstance(n, (ast.Yield, ast.YieldFrom)) for n in ast.walk(hnode)) and not _evaluated_repeatedly([st.value], c):
                    site = (c, hnode)
                    break
        if site is None:
            return None
        call, hnode = site
        inner = [n for n in ast.walk(hnode) if n is not hnode]
        if any(isinstance(n, FUNC + (ast.Lambda, ast.Return, ast.ClassDef, ast.While, ast.Await, ast.Try, ast.With, ast.Global, ast.Nonlocal, ast.Delete)) for n in inner):
            return None
        if any(isinstance(n, (ast.Attribute, ast.Subscript)) and isinstance(n.ctx, (ast.Store, ast.Del)) for n in inner):
            return None
        ys = [n for n in inner if isinstance(n, (ast.Yield, ast.YieldFrom))]
        ystmts = [n for n in inner if isinstance(n, ast.Expr) and isinstance(n.value, (ast.Yield, ast.YieldFrom)) and n.value.value is not None]
        if len(ys) != len(ystmts):
            return None
        if call.keywords or any(isinstance(a, ast.Starred) for a in call.args) or hnode.args.vararg or hnode.args.kwarg or hnode.args.kwonlyargs:
            return None
        k = next(_counter)
        h = copy.deepcopy(hnode)
        params = [a.arg for a in h.args.posonlyargs + h.args.args]
        defaults = dict(zip(params[len(params) - len(h.args.defaults):], h.args.defaults))
        if len(call.args) > len(params):
            return None
        args = dict(zip(params, call.args))
        for p_ in params:
            if p_ not in args:
                if p_ not in defaults:
                    return None
                args[p_] = defaults[p_]
        stores = {n.id for n in ast.walk(h) if isinstance(n, ast.Name) and isinstance(n.ctx, (ast.Store, ast.Del))}
        mapping: dict[str, ast.AST] = {}
        for p_, a_ in args.items():
            if not _simple(a_) or p_ in stores:
                return None
            mapping[p_] = a_
        caller_names = _all_names(fn)
        rename = {n_: f'{n_}__inl{k}' for n_ in _assigned_names(h) - set(params) if n_ in caller_names}
        body = [s_ for s_ in h.body]
        if body and isinstance(body[0], ast.Expr) and isinstance(body[0].value, ast.Constant) and isinstance(body[0].value.value, str):
            body = body[1:]
        sub = _Subst(mapping, rename)
        body = [sub.visit(s_) for s_ in body]
        acc = f'__g{k}'

        def rewrite(stmts: list) -> list:
            out = []
            for s_ in stmts:
                if isinstance(s_, ast.Expr) and isinstance(s_.value, (ast.Yield, ast.YieldFrom)):
                    meth = 'append' if isinstance(s_.value, ast.Yield) else 'extend'
                    out.append(ast.copy_location(ast.Expr(ast.Call(ast.Attribute(ast.Name(acc, ast.Load()), meth, ast.Load()), [s_.value.value], [])), s_))
                    continue
                for fld in ('body', 'orelse'):
                    subl = getattr(s_, fld, None)
                    if isinstance(subl, list) and subl and isinstance(subl[0], ast.stmt):
                        setattr(s_, fld, rewrite(subl))
                out.append(s_)
            return out
        body = rewrite(body)
        _replace(st, call, ast.copy_location(ast.Name(acc, ast.Load()), call))
        out = [ast.copy_location(ast.Assign([ast.Name(acc, ast.Store())], ast.List([], ast.Load()), lineno=st.lineno), st)] + body + [st]
        self._count(hnode)
        return [ast.fix_missing_locations(x) for x in out]

    def _expand_generator(self, st: ast.stmt, cls, rel, fn) -> Optional[list[ast.stmt]]:
        """A new GENERATOR helper consumed on the spot is the loop it contains:
             T = set(G(a..)) / list(G(a..))   ->   acc = set() / [];  <body of G with `yield v` -> acc.add(v) / acc.append(v)>;  T = acc
             for x in G(a..): BODY            ->   <body of G with its single `yield v` -> `x = v; BODY`>      (BODY without break / continue)
        Both keep the interleaving of the helper's statements with the consumption of each value, which is what a generator does.
        Only the plain case: no `return`, no `yield from`, `yield` only as a statement, arguments that are names / attribute chains."""
        consumer = None
        extend_to = None
        if isinstance(st, (ast.Assign, ast.Return)) and (isinstance(st, ast.Return) or len(st.targets) == 1) and isinstance(st.value, ast.Call) and \
                isinstance(st.value.func, ast.Name) and \
                st.value.func.id in ('set', 'list') and len(st.value.args) == 1 and not st.value.keywords and isinstance(st.value.args[0], ast.Call):
            consumer, call = st.value.func.id, st.value.args[0]
        elif isinstance(st, ast.Expr) and isinstance(st.value, ast.Call) and isinstance(st.value.func, ast.Attribute) and st.value.func.attr == 'extend' and \
                len(st.value.args) == 1 and not st.value.keywords and isinstance(st.value.args[0], ast.Call) and _simple(st.value.func.value):
            consumer, call, extend_to = 'list', st.value.args[0], st.value.func.value
        elif isinstance(st, ast.For) and isinstance(st.iter, ast.Call) and not st.orelse and \
                (isinstance(st.target, ast.Name) or (isinstance(st.target, ast.Tuple) and all(isinstance(e_, ast.Name) for e_ in st.target.elts))):
            consumer, call = 'for', st.iter
        else:
            return None
        f = call.func
        name = f.attr if isinstance(f, ast.Attribute) else f.id if isinstance(f, ast.Name) else None
        if name not in self.new:
            return None
        hrel, hq, hcls, hnode = self.new[name]
        if hnode is fn or isinstance(hnode, ast.AsyncFunctionDef):
            return None
        recv = ast.unparse(f.value) if isinstance(f, ast.Attribute) else ''
        if (recv == '') != (hcls is None):
            return None
        if recv and not (recv in ('self', 'cls', 'self.__class__', 'type(self)') or (cls is not None and recv == cls.name) or recv == hcls.name):
            return None
        decs = [ast.unparse(x) for x in hnode.decorator_list]
        if any(x not in ('staticmethod', 'classmethod') for x in decs):
            return None
        inner = [n for n in ast.walk(hnode) if n is not hnode]
        if any(isinstance(n, FUNC + (ast.Lambda, ast.Return, ast.YieldFrom, ast.ClassDef)) for n in inner):
            return None
        yields = [n for n in inner if isinstance(n, ast.Yield)]
        ystmts = [n for n in inner if isinstance(n, ast.Expr) and isinstance(n.value, ast.Yield) and n.value.value is not None]
        if not yields or len(yields) != len(ystmts) or (consumer == 'for' and len(yields) != 1):
            return None
        if consumer == 'for':
            # `continue` in BODY asks the generator for its next value: the same as falling off the end of BODY when nothing follows the
            # `yield` in the iteration of the generator's loop; `break` abandons the generator: the same as leaving that loop when the
            # loop is the last thing the generator does
            jumps_c = _own_jumps(st.body, (ast.Continue,))
            jumps_b = _own_jumps(st.body, (ast.Break,))
            if jumps_c or jumps_b:
                gbody = [s_ for s_ in hnode.body if not (isinstance(s_, ast.Expr) and isinstance(s_.value, ast.Constant))]
                loops_ = [n for n in inner if isinstance(n, (ast.For, ast.While)) and any(y is ystmts[0] for y in ast.walk(n))]
                if len(loops_) != 1 or loops_[0].orelse:
                    return None
                lp = loops_[0]

                def tail(stmts_):
                    if not stmts_:
                        return False
                    l_ = stmts_[-1]
                    if l_ is ystmts[0]:
                        return True
                    if isinstance(l_, ast.If) and not any(y is ystmts[0] for o_ in l_.orelse for y in ast.walk(o_)):
                        return tail(l_.body)
                    return False
                if not tail(lp.body):
                    return None
                if jumps_b and not (gbody and gbody[-1] is lp):
                    return None
        if call.keywords or any(isinstance(a, ast.Starred) for a in call.args) or hnode.args.vararg or hnode.args.kwarg or hnode.args.kwonlyargs:
            return None
        k = next(_counter)
        h = copy.deepcopy(hnode)
        params = [a.arg for a in h.args.posonlyargs + h.args.args]
        mapping: dict[str, ast.AST] = {}
        if 'staticmethod' not in decs and hcls is not None:
            if not params:
                return None
            first = params.pop(0)
            if 'classmethod' in decs:
                mapping[first] = ast.parse({'self': 'self.__class__', 'cls': 'cls'}.get(recv, recv), mode='eval').body
            elif recv != 'self':
                return None
            else:
                mapping[first] = ast.Name('self', ast.Load())
        defaults = dict(zip(params[len(params) - len(h.args.defaults):], h.args.defaults))
        if len(call.args) > len(params):
            return None
        args = dict(zip(params, call.args))
        for p_ in params:
            if p_ not in args:
                if p_ not in defaults:
                    return None
                args[p_] = defaults[p_]
        stores = {n.id for n in ast.walk(h) if isinstance(n, ast.Name) and isinstance(n.ctx, (ast.Store, ast.Del))}
        for p_, a_ in args.items():
            if not _simple(a_) or p_ in stores:
                return None
            mapping[p_] = a_
        caller_names = _all_names(fn)
        rename = {n_: f'{n_}__inl{k}' for n_ in _assigned_names(h) - set(params) if n_ in caller_names}
        if consumer == 'for':
            # a generator local that carries the value straight into the loop variable of the same name keeps its name
            tnames = [st.target.id] if isinstance(st.target, ast.Name) else [e_.id for e_ in st.target.elts]
            yv = ystmts[0].value.value
            yvals = [yv] if isinstance(st.target, ast.Name) else (list(yv.elts) if isinstance(yv, ast.Tuple) and len(yv.elts) == len(tnames) else [])
            for t_, e_ in zip(tnames, yvals):
                if isinstance(e_, ast.Name) and e_.id == t_ and t_ in rename and not any(
                        isinstance(n_, ast.Name) and n_.id == t_ for s_ in fn.body for n_ in ast.walk(s_) if not any(n_ is x_ for x_ in ast.walk(st))):
                    rename.pop(t_)
        body = [s_ for s_ in h.body]
        if body and isinstance(body[0], ast.Expr) and isinstance(body[0].value, ast.Constant) and isinstance(body[0].value.value, str):
            body = body[1:]
        sub = _Subst(mapping, rename)
        body = [sub.visit(s_) for s_ in body]
        acc = f'__acc{k}'
        if extend_to is not None:
            acc = ast.unparse(extend_to)

        def rewrite(stmts: list) -> list:
            out = []
            for s_ in stmts:
                if isinstance(s_, ast.Expr) and isinstance(s_.value, ast.Yield):
                    v = s_.value.value
                    if consumer == 'for':
                        if isinstance(st.target, ast.Tuple) and isinstance(v, ast.Tuple) and len(v.elts) == len(st.target.elts):
                            # parallel binding; the right-hand sides are the generator's own (renamed) locals or plain values
                            tmp_ = []
                            for t_, e_ in zip(st.target.elts, v.elts):
                                if not (isinstance(e_, ast.Name) and e_.id == t_.id):
                                    tmp_.append(ast.copy_location(ast.Assign([ast.Name(t_.id, ast.Store())], e_, lineno=s_.lineno), s_))
                            out.extend(tmp_)
                        elif not (isinstance(v, ast.Name) and isinstance(st.target, ast.Name) and v.id == st.target.id):
                            out.append(ast.copy_location(ast.Assign([copy.deepcopy(st.target)], v, lineno=s_.lineno), s_))
                        out.extend(st.body)
                    else:
                        out.append(ast.copy_location(ast.Expr(ast.Call(ast.Attribute(ast.parse(acc, mode='eval').body, 'add' if consumer == 'set' else 'append', ast.Load()),
                                                                        [v], [])), s_))
                    continue
                for fld in ('body', 'orelse', 'finalbody'):
                    subl = getattr(s_, fld, None)
                    if isinstance(subl, list) and subl and isinstance(subl[0], ast.stmt):
                        setattr(s_, fld, rewrite(subl))
                for h_ in getattr(s_, 'handlers', []) or []:
                    h_.body = rewrite(h_.body)
                out.append(s_)
            return out
        body = rewrite(body)
        if consumer == 'for' or extend_to is not None:
            out = body
        else:
            init = ast.Call(ast.Name('set', ast.Load()), [], []) if consumer == 'set' else ast.List([], ast.Load())
            if isinstance(st, ast.Assign) and isinstance(st.targets[0], ast.Name) and st.targets[0].id not in _all_names(h) and \
                    not any(isinstance(n_, ast.Name) and n_.id == st.targets[0].id for a_ in call.args for n_ in ast.walk(a_)):
                # the accumulator IS the target (`tasks = []; ...; tasks.append(v)`): the loop a maintainer would have written
                tname = st.targets[0].id
                for n_ in [x_ for b_ in body for x_ in ast.walk(b_)]:
                    if isinstance(n_, ast.Name) and n_.id == acc:
                        n_.id = tname
                out = [ast.copy_location(ast.Assign([ast.Name(tname, ast.Store())], init, lineno=st.lineno), st)] + body
            else:
                last = ast.Return(ast.Name(acc, ast.Load())) if isinstance(st, ast.Return) else ast.Assign(st.targets, ast.Name(acc, ast.Load()), lineno=st.lineno)
                out = [ast.copy_location(ast.Assign([ast.Name(acc, ast.Store())], init, lineno=st.lineno), st)] + body + [ast.copy_location(last, st)]
        self._count(hnode)
        return [ast.fix_missing_locations(x) for x in out] or [ast.Pass()]

    def _count(self, hnode):
        self.inlined[hnode.name] = self.inlined.get(hnode.name, 0) + 1


def _unwalrus(e: ast.AST) -> ast.AST:
    """`(t := <name / attribute chain>) is not None and not t.done()`: t abbreviates the chain (read twice instead of once: no call in it)"""
    for w in [n for n in ast.walk(e) if isinstance(n, ast.NamedExpr)]:
        if not (isinstance(w.target, ast.Name) and _simple(w.value)):
            continue
        t = w.target.id

        class R(ast.NodeTransformer):
            def visit_NamedExpr(self, n):
                return copy.deepcopy(w.value) if n is w else self.generic_visit(n)

            def visit_Name(self, n):
                return copy.deepcopy(w.value) if n.id == t and isinstance(n.ctx, ast.Load) else n
        e = R().visit(e)
    return e


def _fold_constant_ifs(stmts: list) -> list:
    """`if True: A else: B` -> A;  `if False: A else: B` -> B  (a literal argument substituted for the helper's parameter decides the branch)"""
    out = []
    for s_ in stmts:
        for fld in ('body', 'orelse', 'finalbody'):
            sub = getattr(s_, fld, None)
            if isinstance(sub, list) and sub and isinstance(sub[0], ast.stmt) and not isinstance(s_, FUNC + (ast.ClassDef,)):
                setattr(s_, fld, _fold_constant_ifs(sub) or ([ast.Pass()] if fld == 'body' else []))
        for h_ in getattr(s_, 'handlers', []) or []:
            h_.body = _fold_constant_ifs(h_.body) or [ast.Pass()]
        if isinstance(s_, ast.If) and isinstance(s_.test, ast.Constant) and isinstance(s_.test.value, (bool, type(None))):
            out.extend(s_.body if s_.test.value else s_.orelse)
        else:
            out.append(s_)
    return out


def _replace(root: ast.AST, old: ast.AST, new: ast.AST):
    for n in ast.walk(root):
        for f, v in ast.iter_fields(n):
            if v is old:
                setattr(n, f, ast.copy_location(new, old))
                return
            if isinstance(v, list):
                for i, x in enumerate(v):
                    if x is old:
                        v[i] = ast.copy_location(new, old)
                        return
    raise RuntimeError('inline: call site vanished')


# ---------------------------------------------------------------------------
# single-exit structuring of a helper body
def _terminates(stmts: list) -> bool:
    if not stmts:
        return False
    st = stmts[-1]
    if isinstance(st, (ast.Return, ast.Raise, ast.Continue, ast.Break)):
        return True
    if isinstance(st, ast.If):
        return _terminates(st.body) and _terminates(st.orelse)
    if isinstance(st, ast.Try):
        if st.finalbody and _terminates(st.finalbody):
            return True
        return (_terminates(st.body) or _terminates(st.orelse)) and all(_terminates(h.body) for h in st.handlers)
    if isinstance(st, (ast.With, ast.AsyncWith)):
        return _terminates(st.body)
    return False


def _contains_return(node) -> bool:
    return bool(_returns_outside_nested([node]))


def _structure(stmts: list) -> Optional[list]:
    """Equivalent statement list in which every `return` is in tail position; None if that needs more than moving the rest of a
    block into the `else` of an `if` / `try` whose other branches terminate."""
    out = list(stmts)
    i = 0
    while i < len(out):
        st = out[i]
        rest = out[i + 1:]
        if isinstance(st, (ast.For, ast.AsyncFor, ast.While)) and _contains_return(st):
            # search loop: `for ..: .. return v ..; REST`  ==  `for ..: .. R = v; break ..  else: REST` when the loop has no break /
            # else of its own and no return sits in a nested loop (marked here, rewritten by _tailify)
            if st.orelse or _own_jumps(st.body, (ast.Break,)) or _returns_in_nested_loops(st.body):
                return None
            o = _structure(rest)
            if o is None:
                return None
            st.orelse = o
            st._ret_loop = True     # type: ignore[attr-defined]
            out = out[:i + 1]
            break
        if isinstance(st, ast.If):
            if _contains_return(st) and rest:
                if _terminates(st.body):
                    st.orelse = list(st.orelse) + rest
                    out = out[:i + 1]
                elif st.orelse and _terminates(st.orelse):
                    st.body = list(st.body) + rest
                    out = out[:i + 1]
                else:
                    return None
            b, o = _structure(st.body), _structure(st.orelse)
            if b is None or o is None:
                return None
            st.body, st.orelse = b or [ast.Pass()], o
        elif isinstance(st, ast.Try):
            if _contains_return(st) and rest:
                if st.finalbody and any(_contains_return(x) for x in st.finalbody):
                    return None
                if all(_terminates(h.body) for h in st.handlers) and not st.finalbody:
                    st.orelse = list(st.orelse) + rest
                    out = out[:i + 1]
                else:
                    return None
            for fld in ('body', 'orelse'):
                r = _structure(getattr(st, fld))
                if r is None:
                    return None
                setattr(st, fld, r if (r or fld == 'orelse') else [ast.Pass()])
            if st.orelse and _contains_return(ast.Module(st.body, [])) and not _terminates(st.body):
                return None
            if _contains_return(ast.Module(st.body, [])) and st.orelse:
                return None
            for h in st.handlers:
                r = _structure(h.body)
                if r is None:
                    return None
                h.body = r or [ast.Pass()]
        elif isinstance(st, (ast.With, ast.AsyncWith)):
            if _contains_return(st) and rest:
                return None
            r = _structure(st.body)
            if r is None:
                return None
            st.body = r or [ast.Pass()]
        elif isinstance(st, ast.Return):
            out = out[:i + 1]     # anything after a return is dead
        elif hasattr(st, 'cases') and _contains_return(st):
            return None
        i += 1
    return out


def _own_jumps(stmts: list, kinds) -> bool:
    """Does the block contain a break / continue that belongs to the enclosing loop?"""
    for st in stmts:
        if isinstance(st, kinds):
            return True
        if isinstance(st, FUNC + (ast.ClassDef, ast.For, ast.AsyncFor, ast.While)):
            if isinstance(st, (ast.For, ast.AsyncFor, ast.While)) and _own_jumps(st.orelse, kinds):
                return True
            continue
        for fld in ('body', 'orelse', 'finalbody'):
            sub = getattr(st, fld, None)
            if isinstance(sub, list) and sub and isinstance(sub[0], ast.stmt) and _own_jumps(sub, kinds):
                return True
        for h in getattr(st, 'handlers', []) or []:
            if _own_jumps(h.body, kinds):
                return True
        for c in getattr(st, 'cases', []) or []:
            if _own_jumps(c.body, kinds):
                return True
    return False


def _returns_in_nested_loops(stmts: list) -> bool:
    for st in stmts:
        for n in ast.walk(st):
            if isinstance(n, (ast.For, ast.AsyncFor, ast.While)) and _contains_return(n):
                return True
    return False


def _loop_returns(stmts: list, result: Optional[str], tails: list) -> list:
    """`return v` -> `R = v; break` inside a search loop (no nested loop holds a return: checked by _structure)."""
    out = []
    for st in stmts:
        if isinstance(st, ast.Return):
            if result is not None:
                new = ast.copy_location(ast.Assign([ast.Name(result, ast.Store())], st.value or ast.Constant(None), lineno=st.lineno), st)
                new._tail = True  # type: ignore[attr-defined]
                tails.append(new)
                out.append(new)
            elif st.value is not None and not _simple(st.value):
                out.append(ast.copy_location(ast.Expr(st.value), st))
            out.append(ast.copy_location(ast.Break(), st))
            continue
        if not isinstance(st, FUNC + (ast.ClassDef,)):
            for fld in ('body', 'orelse', 'finalbody'):
                sub = getattr(st, fld, None)
                if isinstance(sub, list) and sub and isinstance(sub[0], ast.stmt):
                    setattr(st, fld, _loop_returns(sub, result, tails))
            for h in getattr(st, 'handlers', []) or []:
                h.body = _loop_returns(h.body, result, tails)
            for c in getattr(st, 'cases', []) or []:
                c.body = _loop_returns(c.body, result, tails)
        out.append(st)
    return out


def _tailify(stmts: list, result: Optional[str]) -> list:
    """Replace the tail-position returns of a structured block by `R = v` (or by the bare expression / nothing when no value is
    needed); returns the list of replacement statements (Assign nodes, or Pass markers)."""
    tails = []
    if not stmts:
        return tails
    st = stmts[-1]
    if isinstance(st, ast.Return):
        if result is not None:
            new = ast.copy_location(ast.Assign([ast.Name(result, ast.Store())], st.value or ast.Constant(None), lineno=st.lineno), st)
        elif st.value is not None and not _simple(st.value):
            new = ast.copy_location(ast.Expr(st.value), st)
        else:
            new = ast.copy_location(ast.Pass(), st)
        new._tail = True  # type: ignore[attr-defined]
        stmts[-1] = new
        tails.append(new)
    elif isinstance(st, ast.If):
        tails += _tailify(st.body, result)
        tails += _tailify(st.orelse, result)
    elif isinstance(st, ast.Try):
        if st.orelse:
            tails += _tailify(st.orelse, result)
        else:
            tails += _tailify(st.body, result)
        for h in st.handlers:
            tails += _tailify(h.body, result)
    elif isinstance(st, (ast.With, ast.AsyncWith)):
        tails += _tailify(st.body, result)
    elif getattr(st, '_ret_loop', False):
        st.body = _loop_returns(st.body, result, tails)
        tails += _tailify(st.orelse, result)
    return tails


def _terminated_by_tails(stmts: list, tails: list) -> bool:
    """True if every normal way through the block ends in one of the (former) returns."""
    if not stmts:
        return False
    st = stmts[-1]
    if any(st is t for t in tails) or isinstance(st, ast.Raise):
        return True
    if isinstance(st, ast.If):
        return _terminated_by_tails(st.body, tails) and _terminated_by_tails(st.orelse, tails)
    if isinstance(st, ast.Try):
        main = st.orelse if st.orelse else st.body
        return _terminated_by_tails(main, tails) and all(_terminated_by_tails(h.body, tails) for h in st.handlers)
    if isinstance(st, (ast.With, ast.AsyncWith)):
        return _terminated_by_tails(st.body, tails)
    if getattr(st, '_ret_loop', False):
        if isinstance(st, ast.While) and isinstance(st.test, ast.Constant) and st.test.value:
            return True
        return _terminated_by_tails(st.orelse, tails)
    return False


def _splice(stmts: list) -> list:
    """Replace the placeholders left by the next-if threading by the caller's branch."""
    out = []
    for st in stmts:
        if hasattr(st, '_splice'):
            out.extend(st._splice)
            continue
        if getattr(st, '_tail', False) and isinstance(st, ast.Assign) and isinstance(st.value, ast.Name) and isinstance(st.targets[0], ast.Name) and \
                st.value.id == st.targets[0].id:
            continue        # `X = X` left by copy propagation
        for fld in ('body', 'orelse', 'finalbody'):
            sub = getattr(st, fld, None)
            if isinstance(sub, list) and sub and isinstance(sub[0], ast.stmt) and not isinstance(st, FUNC + (ast.ClassDef,)):
                setattr(st, fld, _splice(sub))
        for h in getattr(st, 'handlers', []) or []:
            h.body = _splice(h.body)
        out.append(st)
    return out


def _replace_stmt(stmts: list, old: ast.stmt, new: list) -> bool:
    for i, st in enumerate(stmts):
        if st is old:
            stmts[i:i + 1] = new or [ast.copy_location(ast.Pass(), old)]
            return True
        for fld in ('body', 'orelse', 'finalbody'):
            sub = getattr(st, fld, None)
            if isinstance(sub, list) and sub and isinstance(sub[0], ast.stmt):
                if _replace_stmt(sub, old, new):
                    return True
        for h in getattr(st, 'handlers', []) or []:
            if _replace_stmt(h.body, old, new):
                return True
    return False


def _pure(e: ast.AST) -> bool:
    """Name / attribute / subscript / slice / constant / arithmetic: no call, no await, nothing that binds."""
    return all(isinstance(n, (ast.Name, ast.Attribute, ast.Subscript, ast.Slice, ast.Constant, ast.BinOp, ast.UnaryOp, ast.operator, ast.unaryop,
                              ast.expr_context, ast.Tuple)) for n in ast.walk(e))


def _used_once_in_header(h, first_stmt, p: str) -> bool:
    uses = [n for n in ast.walk(h) if isinstance(n, ast.Name) and n.id == p]
    if len(uses) != 1 or first_stmt is None:
        return False
    if isinstance(first_stmt, (ast.For, ast.AsyncFor)):
        head = [first_stmt.iter]
    elif isinstance(first_stmt, (ast.If, ast.While)):
        head = [first_stmt.test] if isinstance(first_stmt, ast.If) else []
    elif isinstance(first_stmt, (ast.Assign, ast.AnnAssign, ast.AugAssign, ast.Expr, ast.Return)):
        head = [first_stmt.value] if first_stmt.value is not None else []
    else:
        head = []
    return any(uses[0] is n for x in head for n in ast.walk(x))


def _subject(n: ast.AST, whole) -> bool:
    return n is whole or (isinstance(whole, str) and isinstance(n, ast.Name) and n.id == whole)


def _only_depends_on(test: ast.AST, whole) -> bool:
    """test is `X`, `not X`, `X is None`, `X is not None`, `X == const` ... with X the inlined call (or the name it is assigned to)."""
    if _subject(test, whole):
        return True
    if isinstance(test, ast.UnaryOp) and isinstance(test.op, ast.Not):
        return _only_depends_on(test.operand, whole)
    if isinstance(test, ast.Compare) and len(test.ops) == 1 and _subject(test.left, whole) and isinstance(test.comparators[0], ast.Constant) and \
            isinstance(test.ops[0], (ast.Is, ast.IsNot, ast.Eq, ast.NotEq)):
        return True
    return False


def _eval_test(test: ast.AST, whole, value) -> bool:
    if _subject(test, whole):
        return bool(value)
    if isinstance(test, ast.UnaryOp):
        return not _eval_test(test.operand, whole, value)
    if isinstance(test, ast.Compare):
        c = test.comparators[0].value
        op = test.ops[0]
        if isinstance(op, ast.Is):
            return value is c
        if isinstance(op, ast.IsNot):
            return value is not c
        if isinstance(op, ast.Eq):
            return value == c
        return value != c
    raise RuntimeError('inline: test outside the threading fragment')


def _has_elif_chain_dependency(st: ast.If) -> bool:
    return False


def _dfs(node, out):
    out.append(node)
    for c in ast.iter_child_nodes(node):
        _dfs(c, out)


def _live_after(fn, st: ast.stmt, name: str) -> bool:
    """May the caller read `name` after the statement `st` without writing it first?  Conservative: any Load of the name that
    comes after `st` in the function text, or anywhere inside a loop that encloses `st`, or inside a nested def / lambda."""
    order: list = []
    _dfs(fn, order)
    pos = {id(n): i for i, n in enumerate(order)}
    inside: list = []
    _dfs(st, inside)
    inside_ids = {id(n) for n in inside}
    last = max(pos[id(n)] for n in inside if id(n) in pos)
    # loops enclosing st
    loops = []

    def find(node, stack):
        if node is st:
            loops.extend(x for x in stack if isinstance(x, (ast.For, ast.AsyncFor, ast.While)))
            return True
        for c in ast.iter_child_nodes(node):
            if find(c, stack + [node]):
                return True
        return False
    find(fn, [])
    loop_ids = set()
    for lp in loops:
        sub: list = []
        _dfs(lp, sub)
        loop_ids |= {id(n) for n in sub}
    nested_ids = set()
    for n in order:
        if n is not fn and isinstance(n, FUNC + (ast.Lambda,)):
            sub = []
            _dfs(n, sub)
            nested_ids |= {id(x) for x in sub}
    for n in order:
        if isinstance(n, ast.Name) and n.id == name and isinstance(n.ctx, ast.Load) and id(n) not in inside_ids:
            if pos[id(n)] > last or id(n) in loop_ids or id(n) in nested_ids:
                return True
    return False
