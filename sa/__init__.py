"""Static-analysis engine for the aioslsk property checks (stdlib `ast` only)."""
