"""Obligation recording, known-findings matching, evidence files and exit codes."""
from __future__ import annotations
import json
import os
import time
from dataclasses import dataclass, field
from typing import Optional

VERIF = os.path.dirname(os.path.dirname(os.path.abspath(__file__)))
KNOWN_FINDINGS = os.path.join(VERIF, 'known_findings.json')


@dataclass
class Obligation:
    rule: str
    where: str            # file:line
    subject: str          # module:qualname (stable, no line numbers)
    what: str             # human description of the obligation instance
    ok: bool
    detail: str = ''      # for violations: why / witness path
    construct: str = ''   # canonical construct text for the finding key
    advisory: bool = False

    @property
    def key(self) -> str:
        return f'{self.rule}|{self.subject}|{self.construct}'


@dataclass
class Check:
    pid: str
    tier: str = 'quick'
    obligations: list[Obligation] = field(default_factory=list)
    notes: list[str] = field(default_factory=list)
    functions_analysed: set[str] = field(default_factory=set)
    rules_run: list[str] = field(default_factory=list)
    floors: dict[str, tuple[int, int]] = field(default_factory=dict)
    extra: dict = field(default_factory=dict)

    # ------------------------------------------------------------ record
    def ob(self, rule: str, fn, node, what: str, ok: bool, detail: str = '', construct: str = '',
           advisory: bool = False) -> bool:
        """Record one obligation instance. `fn` is a FuncInfo / ClassInfo / str subject."""
        if isinstance(fn, str):
            subject, where = fn, (node if isinstance(node, str) else fn)
        else:
            subject = fn.key
            ln = getattr(node, 'lineno', None) if node is not None else None
            if ln is None:
                ln = getattr(fn.node, 'lineno', 0)
            where = f'src/aioslsk/{fn.module.rel}:{ln}'
            if hasattr(fn, 'qualname'):
                self.functions_analysed.add(subject)
        if not construct:
            construct = what
        self.obligations.append(Obligation(rule, where, subject, what, bool(ok), detail, construct, advisory))
        return bool(ok)

    def floor(self, rule: str, found: int, minimum: int):
        """A rule that matches fewer instances than were confirmed by hand is
        analysis-broken (exit 2), never a silent pass."""
        self.floors[rule] = (found, minimum)

    def note(self, msg: str):
        self.notes.append(msg)

    def visited(self, fn):
        self.functions_analysed.add(fn.key)


def load_known() -> dict:
    if not os.path.exists(KNOWN_FINDINGS):
        return {'open': [], 'fixed': []}
    with open(KNOWN_FINDINGS) as fh:
        return json.load(fh)


def finish(check: Check, t0: float, seed: int, selftest: Optional[dict] = None) -> int:
    """Print the report, write evidence, return the exit code."""
    known = load_known()
    open_keys = {(k['property'], k['key']): k for k in known.get('open', [])}
    viol, knownhits, adv = [], [], []
    for o in check.obligations:
        if o.ok:
            continue
        if o.advisory:
            adv.append(o)
        elif (check.pid, o.key) in open_keys:
            knownhits.append(o)
        else:
            viol.append(o)
    broken = [(r, f, m) for r, (f, m) in check.floors.items() if f < m]

    for o in adv:
        print(f'ADVISORY: property={check.pid} rule={o.rule} {o.where} {o.subject}: {o.what} -- {o.detail}')
    for o in knownhits:
        print(f'KNOWN-FINDING: property={check.pid} rule={o.rule} {o.where} {o.subject}: {o.what} -- {o.detail}')
    ev_dir = os.environ.get('VERIF_EVIDENCE_DIR') or os.path.join(VERIF, 'evidence')
    os.makedirs(ev_dir, exist_ok=True)
    replay = os.path.join(ev_dir, f'{check.pid}.violations.json')
    if viol:
        with open(replay, 'w') as fh:
            json.dump([o.__dict__ for o in viol], fh, indent=1)
        for o in viol:
            print(f'  violated: rule={o.rule} at {o.where} in {o.subject}\n    obligation: {o.what}\n    reason: {o.detail}')
    elif os.path.exists(replay):
        os.remove(replay)

    obligations = [o for o in check.obligations if not o.advisory]
    discharged = [o for o in obligations if o.ok]
    distinct = {o.key for o in obligations}
    samples = []
    seen_rules = set()
    for o in obligations:          # one sample per rule first, then fill up
        if o.rule not in seen_rules:
            seen_rules.add(o.rule)
            samples.append({'rule': o.rule, 'where': o.where, 'subject': o.subject, 'obligation': o.what,
                            'verdict': 'holds' if o.ok else 'VIOLATED', 'detail': o.detail})
    for o in obligations:
        if len(samples) >= 60:
            break
        if not o.ok and not any(s['where'] == o.where and s['rule'] == o.rule for s in samples):
            samples.append({'rule': o.rule, 'where': o.where, 'subject': o.subject, 'obligation': o.what,
                            'verdict': 'VIOLATED', 'detail': o.detail})
    per_rule: dict[str, dict[str, int]] = {}
    for o in obligations:
        d = per_rule.setdefault(o.rule, {'obligations': 0, 'discharged': 0})
        d['obligations'] += 1
        d['discharged'] += int(o.ok)
    cov = {
        'explanation': (
            'Static analysis of the current /repo/src/aioslsk source (ast + CFG with exception/cancellation edges, '
            'dominators, call graph). Each rule instance found in the source is one obligation; it is discharged when '
            'the rule holds at that construct on every path the CFG contains. Nothing from /repo is imported or run.'),
        'obligations': len(obligations),
        'discharged': len(discharged),
        'known_findings_observed': len(knownhits),
        'advisories': len(adv),
        'evaluations': len(obligations),
        'distinct_nontrivial': len(distinct),
        'rule': 'one evaluation = one rule instance (rule id, function, canonical construct) discovered in the source; '
                'distinct = distinct (rule, function, construct) keys; every instance is non-trivial in that it is a '
                'concrete site the rule had to decide',
        'per_rule': per_rule,
        'rules': sorted(per_rule),
        'floors': {r: {'found': f, 'min': m} for r, (f, m) in check.floors.items()},
        'functions_analysed': len(check.functions_analysed),
        'functions': sorted(check.functions_analysed)[:80],
        'samples': samples,
        'checker_cmd': f'./check {check.pid} --tier {check.tier}',
        'trusted_base': ['CPython ast', 'CFG/dominator construction in /verif/sa', 'asyncio cancellation semantics '
                         '(CancelledError raised only at suspension points, is not an Exception)',
                         'pinned oracle tables under /verif/tables'],
        'exhaustive': True,
        'notes': check.notes[:40],
    }
    cov.update(check.extra)
    if selftest is not None:
        cov['selftest'] = selftest
    ev = {
        'property_id': check.pid, 'tier': check.tier, 'seed': seed, 'level': 'other',
        'coverage': cov,
        'assumptions': [
            'exceptions from attribute access / arithmetic are not modelled; calls and awaits may raise',
            'call resolution is annotation driven; rules that need a callee and cannot resolve it fail closed',
            'the clauses listed as "not decided" for this property in DESIGN.md are outside the claim',
        ],
        'wall_s': round(time.time() - t0, 3),
        'violations': len(viol),
    }
    with open(os.path.join(ev_dir, f'{check.pid}.json'), 'w') as fh:
        json.dump(ev, fh, indent=1, default=str)

    print(f'{check.pid} [{check.tier}]: {len(obligations)} obligations over {len(per_rule)} rules, '
          f'{len(discharged)} discharged, {len(knownhits)} known findings, {len(viol)} violations, '
          f'{len(check.functions_analysed)} functions analysed, {ev["wall_s"]}s')
    for r, f, m in broken:
        print(f'ANALYSIS-ERROR: rule {r} matched {f} instances, fewer than the {m} confirmed by hand '
              f'(anchor moved or idiom no longer recognised)')
    if viol:
        print(f'VIOLATION property={check.pid} replay={replay}')
        return 1
    if broken:
        return 2
    return 0
