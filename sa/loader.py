"""Parse /repo/src/aioslsk and index modules, classes and functions."""
from __future__ import annotations
import ast
import hashlib
import json
import os
from dataclasses import dataclass, field
from typing import Optional

from .astx import FUNC_NODES, unparse

REPO_ROOT = os.environ.get('AIOSLSK_REPO', '/repo')
PKG_DIR = 'src/aioslsk'
KNOWN_CONSTS = os.path.join(os.path.dirname(os.path.dirname(os.path.abspath(__file__))), 'tables', 'known_constants.json')
KNOWN_FUNCS = os.path.join(os.path.dirname(os.path.dirname(os.path.abspath(__file__))), 'tables', 'known_functions.json')


class AnalysisError(Exception):
    """The analysis itself cannot run (missing anchor, parse error, idiom the
    engine does not know). Mapped to exit code 2, never to a verdict."""


@dataclass
class Module:
    rel: str                      # 'network/network.py'
    dotted: str                   # 'aioslsk.network.network'
    path: str
    source: str
    tree: ast.Module
    imports: dict[str, str] = field(default_factory=dict)   # local name -> 'dotted.module:orig' or 'dotted.module'


@dataclass
class ClassInfo:
    name: str                     # 'Network', 'Login.Request'
    node: ast.ClassDef
    module: Module
    bases: list[str]
    outer: Optional['ClassInfo'] = None
    methods: dict[str, 'FuncInfo'] = field(default_factory=dict)
    nested: dict[str, 'ClassInfo'] = field(default_factory=dict)

    @property
    def key(self) -> str:
        return f'{self.module.rel}:{self.name}'

    def __hash__(self):
        return id(self)

    def __eq__(self, other):
        return self is other


@dataclass
class FuncInfo:
    name: str
    qualname: str                 # 'Network.connect', 'scan_directory', 'Network._upnp_job.<locals>.filter_mapped_port'
    node: ast.AST
    module: Module
    cls: Optional[ClassInfo] = None
    outer: Optional['FuncInfo'] = None

    @property
    def key(self) -> str:
        return f'{self.module.rel}:{self.qualname}'

    @property
    def is_async(self) -> bool:
        return isinstance(self.node, ast.AsyncFunctionDef)

    @property
    def params(self) -> list[str]:
        a = self.node.args
        return [x.arg for x in a.posonlyargs + a.args + a.kwonlyargs] + \
            ([a.vararg.arg] if a.vararg else []) + ([a.kwarg.arg] if a.kwarg else [])

    def param_annotation(self, name: str) -> Optional[ast.AST]:
        a = self.node.args
        for x in a.posonlyargs + a.args + a.kwonlyargs:
            if x.arg == name:
                return x.annotation
        return None

    @property
    def decorators(self) -> list[ast.AST]:
        return self.node.decorator_list

    def where(self, node: Optional[ast.AST] = None) -> str:
        ln = getattr(node if node is not None else self.node, 'lineno', 0)
        return f'src/aioslsk/{self.module.rel}:{ln}'

    def __hash__(self):
        return id(self)

    def __eq__(self, other):
        return self is other

    def __repr__(self):
        return f'<Func {self.key}>'


class Repo:
    def __init__(self, root: str = REPO_ROOT):
        self.root = root
        self.pkg = os.path.join(root, PKG_DIR)
        self.modules: dict[str, Module] = {}
        self.classes: dict[str, list[ClassInfo]] = {}
        self.funcs: dict[str, FuncInfo] = {}
        self.funcs_by_name: dict[str, list[FuncInfo]] = {}
        self._load()

    # ------------------------------------------------------------------ load
    def _load(self):
        if not os.path.isdir(self.pkg):
            raise AnalysisError(f'package directory not found: {self.pkg}')
        h = hashlib.sha256()
        mods: list[Module] = []
        for dirpath, dirnames, filenames in sorted(os.walk(self.pkg)):
            dirnames.sort()
            for fn in sorted(filenames):
                if not fn.endswith('.py'):
                    continue
                path = os.path.join(dirpath, fn)
                rel = os.path.relpath(path, self.pkg)
                with open(path, encoding='utf-8') as fh:
                    src = fh.read()
                h.update(rel.encode() + b'\0' + src.encode() + b'\0')
                try:
                    tree = ast.parse(src, filename=path)
                except SyntaxError as exc:
                    raise AnalysisError(f'{path} does not parse: {exc}')
                dotted = 'aioslsk.' + rel[:-3].replace(os.sep, '.')
                if dotted.endswith('.__init__'):
                    dotted = dotted[:-9]
                mod = Module(rel, dotted, path, src, tree)
                self.modules[rel] = mod
                mods.append(mod)
        # normalisation: `match` statements become the if/elif chains they abbreviate (see sa/desugar.py)
        from .desugar import desugar
        if os.environ.get('AIOSLSK_VERIF_NO_DESUGAR') != '1':
            from .normalise import before_inliner
            for m in mods:
                desugar(m.tree)
                before_inliner(m.tree)
        # normalisation: inline helpers the rule set has never seen (see sa/inline.py)
        self.inline_log: list[str] = []
        self.known_funcs: set[str] = set()
        if os.environ.get('AIOSLSK_VERIF_NO_INLINE') != '1' and os.path.exists(KNOWN_FUNCS):
            from .inline import Inliner
            with open(KNOWN_FUNCS) as fh:
                known = set(json.load(fh)['functions'])
            self.known_funcs = known
            inl = Inliner({m.rel: m.tree for m in mods}, known)
            inl.run()
            self.inline_log = inl.log
            from .normalise import after_inliner
            with open(KNOWN_CONSTS) as fh:
                self.inline_log += after_inliner({m.rel: m.tree for m in mods}, set(json.load(fh)['constants']))
        for mod in mods:
            self._index_module(mod)
        self.digest = h.hexdigest()

    def _index_module(self, mod: Module):
        for node in ast.walk(mod.tree):
            for child in ast.iter_child_nodes(node):
                child._parent = node  # type: ignore[attr-defined]
                child._module = mod  # type: ignore[attr-defined]
        mod.tree._parent = None  # type: ignore[attr-defined]
        # imports
        pkg_parts = mod.dotted.split('.')
        if not mod.rel.endswith('__init__.py'):
            pkg_parts = pkg_parts[:-1]
        for node in ast.walk(mod.tree):
            if isinstance(node, ast.ImportFrom):
                if node.level:
                    base = pkg_parts[:len(pkg_parts) - (node.level - 1)]
                    target = '.'.join(base + ([node.module] if node.module else []))
                else:
                    target = node.module or ''
                for a in node.names:
                    mod.imports[a.asname or a.name] = f'{target}:{a.name}'
            elif isinstance(node, ast.Import):
                for a in node.names:
                    mod.imports[a.asname or a.name.split('.')[0]] = a.name if a.asname else a.name.split('.')[0]

        def visit(body, cls: Optional[ClassInfo], fn: Optional[FuncInfo], prefix: str):
            for st in body:
                if isinstance(st, ast.ClassDef):
                    name = f'{prefix}{st.name}'
                    ci = ClassInfo(name, st, mod, [unparse(b) for b in st.bases], outer=cls)
                    st._info = ci  # type: ignore[attr-defined]
                    self.classes.setdefault(name, []).append(ci)
                    if cls is not None and fn is None:
                        cls.nested[st.name] = ci
                    visit(st.body, ci, None, name + '.')
                elif isinstance(st, FUNC_NODES):
                    q = f'{prefix}{st.name}'
                    fi = FuncInfo(st.name, q, st, mod, cls=cls if fn is None else fn.cls, outer=fn)
                    st._info = fi  # type: ignore[attr-defined]
                    self.funcs[fi.key] = fi
                    self.funcs_by_name.setdefault(st.name, []).append(fi)
                    if cls is not None and fn is None:
                        cls.methods[st.name] = fi
                    visit(st.body, None, fi, q + '.<locals>.')
                elif isinstance(st, (ast.If, ast.Try, ast.With, ast.For, ast.While)):
                    for sub in ('body', 'orelse', 'finalbody'):
                        visit(getattr(st, sub, []) or [], cls, fn, prefix)
                    for hd in getattr(st, 'handlers', []) or []:
                        visit(hd.body, cls, fn, prefix)

        visit(mod.tree.body, None, None, '')

    # ---------------------------------------------------------------- lookup
    def module(self, rel: str) -> Module:
        try:
            return self.modules[rel]
        except KeyError:
            raise AnalysisError(f'anchor module vanished: {rel}')

    def func(self, rel: str, qualname: str) -> FuncInfo:
        try:
            return self.funcs[f'{rel}:{qualname}']
        except KeyError:
            raise AnalysisError(f'anchor function vanished: {rel}:{qualname}')

    def find_func(self, rel: str, qualname: str) -> Optional[FuncInfo]:
        return self.funcs.get(f'{rel}:{qualname}')

    def cls(self, name: str, rel: Optional[str] = None) -> ClassInfo:
        cands = [c for c in self.classes.get(name, []) if rel is None or c.module.rel == rel]
        if len(cands) != 1:
            raise AnalysisError(f'anchor class {"vanished" if not cands else "ambiguous"}: {name} ({rel})')
        return cands[0]

    def find_cls(self, name: str, rel: Optional[str] = None) -> Optional[ClassInfo]:
        cands = [c for c in self.classes.get(name, []) if rel is None or c.module.rel == rel]
        return cands[0] if len(cands) == 1 else None

    def all_classes(self) -> list[ClassInfo]:
        return [c for cs in self.classes.values() for c in cs]

    def all_funcs(self) -> list[FuncInfo]:
        return list(self.funcs.values())

    def base_infos(self, ci: ClassInfo) -> list[ClassInfo]:
        out = []
        for b in ci.bases:
            nm = b.split('[')[0]
            nm = nm.split('.')[-1] if nm not in self.classes else nm
            c = self._resolve_class_name(nm, ci.module)
            if c is not None:
                out.append(c)
        return out

    def _resolve_class_name(self, name: str, mod: Module) -> Optional[ClassInfo]:
        cands = self.classes.get(name, [])
        if not cands:
            return None
        same = [c for c in cands if c.module is mod]
        if same:
            return same[0]
        imp = mod.imports.get(name.split('.')[0])
        if imp and ':' in imp:
            target_mod = imp.split(':')[0]
            for c in cands:
                if c.module.dotted == target_mod:
                    return c
        return cands[0] if len(cands) == 1 else None

    def resolve_class(self, name: str, mod: Module) -> Optional[ClassInfo]:
        return self._resolve_class_name(name, mod)

    def mro(self, ci: ClassInfo) -> list[ClassInfo]:
        cache = self.__dict__.setdefault('_mro_cache', {})
        if ci in cache:
            return cache[ci]
        seen: list[ClassInfo] = []

        def rec(c: ClassInfo):
            if c in seen:
                return
            seen.append(c)
            for b in self.base_infos(c):
                rec(b)
        rec(ci)
        cache[ci] = seen
        return seen

    def lookup_method(self, ci: ClassInfo, name: str) -> Optional[FuncInfo]:
        for c in self.mro(ci):
            if name in c.methods:
                return c.methods[name]
        return None

    def subclasses(self, ci: ClassInfo, transitive: bool = True) -> list[ClassInfo]:
        cache = self.__dict__.setdefault('_sub_cache', {})
        if (ci, transitive) in cache:
            return cache[(ci, transitive)]
        out: list[ClassInfo] = []
        for c in self.all_classes():
            if c is ci:
                continue
            if ci in (self.mro(c)[1:] if transitive else self.base_infos(c)):
                out.append(c)
        cache[(ci, transitive)] = out
        return out

    def is_subclass(self, ci: ClassInfo, base_name: str) -> bool:
        return any(c.name == base_name for c in self.mro(ci))

    def method_impls(self, ci: ClassInfo, name: str) -> list[FuncInfo]:
        """All implementations a call `obj.name()` may reach when obj's static
        type is `ci`: the one found on ci's MRO plus every override in a subclass."""
        out: list[FuncInfo] = []
        m = self.lookup_method(ci, name)
        if m is not None:
            out.append(m)
        for sc in self.subclasses(ci):
            if name in sc.methods and sc.methods[name] not in out:
                out.append(sc.methods[name])
        return out
