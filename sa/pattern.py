"""Structural patterns over the syntax tree (semgrep-like, ~150 lines).

A pattern is Python source with metavariables:

    $x        any expression; every occurrence of the same metavariable must bind the same (unparsed) expression
    $_        any expression, no binding
    $$        inside call arguments / tuple, list elements: any number of elements
    ...       as a statement: any number of statements

Matching is modulo: load/store context, local names when bound through metavariables, order of the operands of commutative
operators and of ==, !=, is, is not (and a < b  ==  b > a), keyword vs. positional spelling of arguments of the callees listed in
SIGNATURES, and redundant parentheses.  It is NOT modulo control-flow shape: rules use patterns for expressions and single
statements and the CFG for ordering.
"""
from __future__ import annotations

import ast
import re
from typing import Iterator, Optional

MV = '__MV_'
STAR = '__MVSTAR__'

# keyword/positional normalisation for well-known callees: name of the called attribute/function -> parameter order
SIGNATURES = {
    'unpack_from': ['buffer', 'offset'],
    'pack_into': ['buffer', 'offset'],
    'to_bytes': ['length', 'byteorder'],
    'from_bytes': ['bytes', 'byteorder'],
    'wait_for': ['fut', 'timeout'],
    'rotate_key': ['key', 'rot_bits'],
    'deserialize': None,
}

_COMMUTATIVE = (ast.Mult, ast.BitOr, ast.BitAnd, ast.BitXor)
# `+` is commutative for numbers but not for str/bytes/list: patterns opt in with the metavariable-free marker `+` inside `num(...)`:
# write  num($a + $b)  to match  a + b  and  b + a

_SYM_CMP = (ast.Eq, ast.NotEq, ast.Is, ast.IsNot)
_FLIP = {ast.Lt: ast.Gt, ast.Gt: ast.Lt, ast.LtE: ast.GtE, ast.GtE: ast.LtE}


def compile_pattern(pat: str) -> list[ast.AST]:
    src = re.sub(r'\$\$', STAR, pat)
    src = re.sub(r'\$(\w+)', lambda m: MV + m.group(1), src)
    tree = ast.parse(src)
    out = []
    for st in tree.body:
        if isinstance(st, ast.Expr) and not (isinstance(st.value, ast.Constant) and st.value.value is Ellipsis):
            out.append(st.value)
        else:
            out.append(st)
    return out


def _is_mv(n) -> Optional[str]:
    if isinstance(n, ast.Name) and n.id.startswith(MV):
        return n.id[len(MV):]
    return None


def _is_star(n) -> bool:
    return (isinstance(n, ast.Name) and n.id == STAR) or (isinstance(n, ast.Starred) and isinstance(n.value, ast.Name) and n.value.id == STAR)


def _is_ellipsis_stmt(n) -> bool:
    return isinstance(n, ast.Expr) and isinstance(n.value, ast.Constant) and n.value.value is Ellipsis


def _norm_call(c: ast.Call):
    """(positional args, keyword dict) with keywords of known signatures moved to their position."""
    name = c.func.attr if isinstance(c.func, ast.Attribute) else c.func.id if isinstance(c.func, ast.Name) else None
    args = list(c.args)
    kws = {k.arg: k.value for k in c.keywords if k.arg}
    sig = SIGNATURES.get(name)
    if sig:
        for i, p in enumerate(sig):
            if i == len(args) and p in kws:
                args.append(kws.pop(p))
    return args, kws


def _match_seq(nodes: list, pats: list, b: dict, star_test) -> Optional[dict]:
    if not pats:
        return b if not nodes else None
    if star_test(pats[0]):
        for k in range(len(nodes) + 1):
            r = _match_seq(nodes[k:], pats[1:], dict(b), star_test)
            if r is not None:
                return r
        return None
    if not nodes:
        return None
    r = match(nodes[0], pats[0], dict(b))
    if r is None:
        return None
    return _match_seq(nodes[1:], pats[1:], r, star_test)


def match(node, pat, b: Optional[dict] = None) -> Optional[dict]:
    """Bindings if `node` matches the compiled pattern node `pat`, else None."""
    b = {} if b is None else b
    mv = _is_mv(pat)
    if mv is not None:
        if not isinstance(node, ast.expr):
            return None
        if mv == '_':
            return b
        txt = ast.unparse(node)
        if mv in b:
            return b if b[mv] == txt else None
        b = dict(b)
        b[mv] = txt
        return b
    if isinstance(pat, list):
        if not isinstance(node, list):
            return None
        if pat and all(isinstance(p, ast.stmt) for p in pat):
            return _match_seq(node, pat, b, _is_ellipsis_stmt)
        return _match_seq(node, pat, b, _is_star)
    if not isinstance(pat, ast.AST):
        return b if node == pat else None
    if isinstance(pat, ast.Call) and isinstance(pat.func, ast.Name) and pat.func.id == 'num' and len(pat.args) == 1 and isinstance(pat.args[0], ast.BinOp) \
            and isinstance(pat.args[0].op, ast.Add):
        inner = pat.args[0]
        if not (isinstance(node, ast.BinOp) and isinstance(node.op, ast.Add)):
            return None
        for l, r_ in ((node.left, node.right), (node.right, node.left)):
            r = match(l, inner.left, dict(b))
            if r is not None:
                r = match(r_, inner.right, r)
                if r is not None:
                    return r
        return None
    if isinstance(pat, ast.Call) and isinstance(node, ast.Call):
        r = match(node.func, pat.func, b)
        if r is None:
            return None
        na, nk = _norm_call(node)
        pa, pk = _norm_call(pat)
        r = _match_seq(na, pa, r, _is_star)
        if r is None:
            return None
        open_kw = any(_is_star(a) for a in pa)
        if not open_kw and set(nk) != set(pk):
            return None
        for k, v in pk.items():
            if k not in nk:
                return None
            r = match(nk[k], v, r)
            if r is None:
                return None
        return r
    if type(node) is not type(pat):
        # a < b  ==  b > a handled below; everything else must agree in kind
        return None
    if isinstance(pat, ast.BinOp) and isinstance(pat.op, _COMMUTATIVE) and type(pat.op) is type(node.op):
        for l, r_ in ((node.left, node.right), (node.right, node.left)):
            r = match(l, pat.left, dict(b))
            if r is not None:
                r = match(r_, pat.right, r)
                if r is not None:
                    return r
        return None
    if isinstance(pat, ast.Compare) and len(pat.ops) == 1 and len(node.ops) == 1:
        po, no = type(pat.ops[0]), type(node.ops[0])
        if po is no:
            r = match(node.left, pat.left, dict(b))
            if r is not None:
                r = match(node.comparators[0], pat.comparators[0], r)
                if r is not None:
                    return r
            if po in _SYM_CMP:
                r = match(node.comparators[0], pat.left, dict(b))
                if r is not None:
                    return match(node.left, pat.comparators[0], r)
            return None
        if _FLIP.get(po) is no:
            r = match(node.comparators[0], pat.left, dict(b))
            if r is not None:
                return match(node.left, pat.comparators[0], r)
        return None
    for f in pat._fields:
        if f in ('ctx', 'type_comment', 'kind', 'lineno'):
            continue
        pv, nv = getattr(pat, f, None), getattr(node, f, None)
        if isinstance(pv, list):
            r = match(nv, pv, b)
        elif isinstance(pv, ast.AST):
            r = match(nv, pv, b) if isinstance(nv, ast.AST) else None
        else:
            r = b if pv == nv else None
        if r is None:
            return None
        b = r
    return b


def walk_local(root: ast.AST) -> Iterator[ast.AST]:
    todo = [root]
    first = True
    while todo:
        n = todo.pop()
        if not first and isinstance(n, (ast.FunctionDef, ast.AsyncFunctionDef, ast.Lambda, ast.ClassDef)):
            continue
        first = False
        yield n
        todo.extend(ast.iter_child_nodes(n))


def find(root: ast.AST, pat: str, binds: Optional[dict] = None, nested: bool = False) -> list[tuple[ast.AST, dict]]:
    """All (node, bindings) under `root` (not entering nested defs unless nested=True) matching the single-node pattern."""
    ps = compile_pattern(pat)
    if len(ps) != 1:
        raise ValueError(f'pattern must be one expression or statement: {pat!r}')
    p = ps[0]
    out = []
    it = ast.walk(root) if nested else walk_local(root)
    for n in it:
        r = match(n, p, dict(binds or {}))
        if r is not None:
            out.append((n, r))
    return out


def has(root: ast.AST, pat: str, binds: Optional[dict] = None, nested: bool = False) -> bool:
    return bool(find(root, pat, binds, nested))


def first(root: ast.AST, pat: str, binds: Optional[dict] = None) -> Optional[tuple[ast.AST, dict]]:
    r = find(root, pat, binds)
    return r[0] if r else None
