"""Checker self-test (thorough tier): the verdict on /repo is only believed if
the checker tells seeded violations from behaviour-preserving refactorings.

* break variants: one instance of a rule is broken on a scratch copy of the
  current tree (source edit computed from a unique fragment; the copy must
  still compile). The property's check must report a NEW violation of the
  expected rule.
* keep variants: a behaviour-preserving refactoring; the check must report no
  new violation and no analysis error.
* the confirmed sub-agent seeds under /verif/seeded for this property are run
  as break variants too (patch applied to the scratch copy).

A variant whose fragment no longer occurs in the current tree is `stale`: it is
skipped and reported, it never fails the run (the tree under analysis may have
been edited). Scratch copies live under $TMPDIR/aioslsk-verif-selftest-* and
are removed before returning.
"""
from __future__ import annotations
import ast
import json
import multiprocessing as mp
import os
import sys
import random
import shutil
import subprocess
import tempfile

VERIF = os.path.dirname(os.path.dirname(os.path.abspath(__file__)))

# (property, kind, name, file under src/aioslsk, old fragment, new fragment, expected rule prefix)
V = []


def b(pid, name, rel, old, new, rule):
    V.append((pid, 'break', name, rel, old, new, rule))


def k(pid, name, rel, old, new):
    V.append((pid, 'keep', name, rel, old, new, None))


# ---------------------------------------------------------------- C01
b('C01', 'Recommendation.score int32->uint32', 'protocol/primitives.py', "score: int = field(metadata={'type': int32})", "score: int = field(metadata={'type': uint32})", 'R-C01-LAYOUT')
b('C01', 'GetPeerAddress obfuscated_port uint16->uint32', 'protocol/messages.py', "obfuscated_port: Optional[int] = field(default=None, metadata={'type': uint16, 'optional': True})",
  "obfuscated_port: Optional[int] = field(default=None, metadata={'type': uint32, 'optional': True})", 'R-C01-LAYOUT')
b('C01', 'uint32 struct signed', 'protocol/primitives.py', "class uint32(int):\n    STRUCT = struct.Struct('<I')", "class uint32(int):\n    STRUCT = struct.Struct('<i')", 'R-C01-LAYOUT')
b('C01', 'Login.Response reason if_false->if_true', 'protocol/messages.py', "metadata={'type': string, 'if_false': 'success'}", "metadata={'type': string, 'if_true': 'success'}", 'R-C01-LAYOUT')
b('C01', '_ATTR_STRUCT narrowed', 'protocol/primitives.py', "_ATTR_STRUCT = struct.Struct('<II')", "_ATTR_STRUCT = struct.Struct('<IH')", 'R-C01-HANDCODEC')
b('C01', 'FileData reads uint32 filesize', 'protocol/primitives.py', "        pos, filesize = uint64.deserialize(pos, message)", "        pos, filesize = uint32.deserialize(pos, message)", 'R-C01-HANDCODEC')
b('C01', 'writer ignores if_false', 'protocol/primitives.py', "            return value if not bool(other_value) else None", "            return value", 'R-C01-DRIVER')
b('C01', 'decoder table capped at 16 keys', 'protocol/obfuscation.py', "key_amount = min(ceil(message_len / KEY_SIZE), 32)", "key_amount = min(ceil(message_len / KEY_SIZE), 16)", 'R-C01-OBFUSC')
b('C01', 'duplicate message id', 'protocol/messages.py', "        MESSAGE_ID: ClassVar[uint32] = uint32(0x06)\n        username: str = field(metadata={'type': string})",
  "        MESSAGE_ID: ClassVar[uint32] = uint32(0x05)\n        username: str = field(metadata={'type': string})", 'R-C01-')
k('C01', 'rename a message field', 'protocol/messages.py', "        greeting: Optional[str] = field(default=None, metadata={'type': string, 'if_true': 'success'})",
  "        welcome: Optional[str] = field(default=None, metadata={'type': string, 'if_true': 'success'})")
# ---------------------------------------------------------------- C02
b('C02', 'drop MessageDeserializationError handler in reader loop', 'network/connection.py',
  "            except MessageDeserializationError as exc:\n                adapter.warning(\n                    \"failed to deserialize message : %s\", exc.proto_message, extra=self.__dict__)\n\n            else:\n\n                if not message:",
  "            else:\n\n                if not message:", 'R-C02-ESCAPE')
b('C02', 'decode-error handler leaves the loop', 'network/connection.py',
  "                adapter.warning(\n                    \"failed to deserialize message : %s\", exc.proto_message, extra=self.__dict__)\n",
  "                adapter.warning(\n                    \"failed to deserialize message : %s\", exc.proto_message, extra=self.__dict__)\n                return\n", 'R-C02-ESCAPE')
k('C02', 'read-error handler leaves the loop (the connection was closed by _read)', 'network/connection.py',
  "            except ConnectionReadError:\n                adapter.warning(\"read error\", extra=self.__dict__)\n",
  "            except ConnectionReadError:\n                adapter.warning(\"read error\", extra=self.__dict__)\n                return\n")
b('C02', 'body read with read()', 'network/connection.py', "message = await self._reader.readexactly(message_len)", "message = await self._reader.read(message_len)", 'R-C02-FRAME')
b('C02', 'remove catch-all around callback', 'network/connection.py', "        try:\n            await self.network.on_message_received(message, self)\n        except Exception:\n            adapter.exception(\"error during callback : %s\", message, extra=self.__dict__)",
  "        await self.network.on_message_received(message, self)", 'R-C02-ESCAPE')
b('C02', 'generic read handler forgets disconnect', 'network/connection.py', "        except Exception as exc:\n            await self.disconnect(CloseReason.READ_ERROR)\n            raise ConnectionReadError(f\"{self.hostname}:{self.port} : exception during reading\") from exc",
  "        except Exception as exc:\n            raise ConnectionReadError(f\"{self.hostname}:{self.port} : exception during reading\") from exc", 'R-C02-ESCAPE')
k('C02', 'merge reader loop handlers', 'network/connection.py', "            except ConnectionReadError:\n                adapter.warning(\"read error\", extra=self.__dict__)\n\n            except MessageDeserializationError as exc:\n                adapter.warning(\n                    \"failed to deserialize message : %s\", exc.proto_message, extra=self.__dict__)\n",
  "            except (ConnectionReadError, MessageDeserializationError) as exc:\n                adapter.warning(\"read error or bad message : %r\", exc, extra=self.__dict__)\n")
# ---------------------------------------------------------------- C03
b('C03', 'CompleteState gains pause', 'transfer/state.py', "class IncompleteState(TransferState):", "class _Extra:\n    pass\n\n\nclass IncompleteState(TransferState):", 'NONE')
b('C03', 'AbortedState.queue goes to INITIALIZING', 'transfer/state.py', "        self.transfer.remotely_queued = remotely\n        await self.transfer.transition(QueuedState(self.transfer))\n        return True\n",
  "        self.transfer.remotely_queued = remotely\n        await self.transfer.transition(InitializingState(self.transfer))\n        return True\n", 'R-C03-GRAPH')
b('C03', 'base abort has a side effect', 'transfer/state.py', "    async def abort(self, reason: Optional[str] = None) -> bool:  # pragma: no cover\n        logger.warning(",
  "    async def abort(self, reason: Optional[str] = None) -> bool:  # pragma: no cover\n        self.transfer.abort_reason = reason\n        logger.warning(", 'R-C03-REFUSE-PURE')
b('C03', '__setstate__ forgets _wrap_lock', 'transfer/state.py', "        self.__dict__.update(state)\n        self._wrap_lock()", "        self.__dict__.update(state)", 'R-C03-LOCKED')
b('C03', 'wrap skips names starting with a', 'transfer/state.py', "            if not name.startswith('_'):\n                setattr(", "            if not name.startswith('_') and not name.startswith('a'):\n                setattr(", 'R-C03-LOCKED')
b('C03', 'override returns None', 'transfer/state.py', "    async def incomplete(self) -> bool:\n        self.transfer.set_complete_time()\n        await self.transfer.transition(IncompleteState(self.transfer))\n        return True",
  "    async def incomplete(self) -> bool:\n        self.transfer.set_complete_time()\n        await self.transfer.transition(IncompleteState(self.transfer))", 'R-C03-RETURNS')
k('C03', 'reorder two state methods', 'transfer/state.py', "class VirginState(TransferState):\n    \"\"\"State representing a newly added transfer\"\"\"\n    VALUE = TransferState.VIRGIN\n",
  "class VirginState(TransferState):\n    \"\"\"State representing a newly added transfer (first state)\"\"\"\n    VALUE = TransferState.VIRGIN\n")
# ---------------------------------------------------------------- C04
b('C04', 'complete without size check (upload)', 'transfer/manager.py', "            await connection.receive_until_eof(raise_exception=False)\n            if transfer.is_transfered():\n                await transfer.state.complete()\n            else:\n                await transfer.state.fail()",
  "            await connection.receive_until_eof(raise_exception=False)\n            await transfer.state.complete()", 'R-C04-GUARD')
b('C04', 'is_transfered uses >=', 'transfer/model.py', "        return self.filesize == self.bytes_transfered", "        return self.bytes_transfered >= (self.filesize or 0)", 'R-C04-GUARD')
b('C04', 'download opens with wb', 'transfer/manager.py', "aiofiles.open(transfer.local_path, mode='ab')", "aiofiles.open(transfer.local_path, mode='wb')", 'R-C04-RESUME')
b('C04', 'send offset 0', 'transfer/manager.py', "await file_connection.send_message(uint64(offset).serialize())", "await file_connection.send_message(uint64(0).serialize())", 'R-C04-RESUME')
b('C04', 'read error fails the download', 'transfer/manager.py', "            logger.warning(\"error reading from socket : %s\", transfer, exc_info=exc)\n            await transfer.state.incomplete()",
  "            logger.warning(\"error reading from socket : %s\", transfer, exc_info=exc)\n            await transfer.state.fail()", 'R-C04-FAULT')
k('C04', 'rename offset local', 'transfer/manager.py', "        offset = await self._calculate_offset(transfer)\n        transfer.bytes_transfered = offset\n        try:\n            await file_connection.send_message(uint64(offset).serialize())\n\n        except ConnectionWriteError:\n            logger.warning(\"failed to send offset : %d : %s\", offset, transfer)",
  "        resume_at = await self._calculate_offset(transfer)\n        transfer.bytes_transfered = resume_at\n        try:\n            await file_connection.send_message(uint64(resume_at).serialize())\n\n        except ConnectionWriteError:\n            logger.warning(\"failed to send offset : %d : %s\", resume_at, transfer)")
# ---------------------------------------------------------------- C05
b('C05', 'slice bound + 1', 'transfer/manager.py', "for upload in uploads[:free_upload_slots]:", "for upload in uploads[:free_upload_slots + 1]:", 'R-C05-BOUND')
b('C05', 'drop uploading_users test', 'transfer/manager.py', "                if transfer.username in uploading_users:\n                    continue\n", "", 'R-C05-PERUSER')
b('C05', 'per-cycle set not updated', 'transfer/manager.py', "                    users_with_queued_upload.add(transfer.username)\n", "", 'R-C05-PERUSER')
b('C05', 'friend weight zero', 'transfer/manager.py', "                rank += 5", "                rank += 0", 'R-C05-RANK')
b('C05', 'ascending order', 'transfer/manager.py', "return list(reversed([upload for _, upload in ranking]))", "return list([upload for _, upload in ranking])", 'R-C05-RANK')
k('C05', 'slice into a local first', 'transfer/manager.py', "        for upload in uploads[:free_upload_slots]:", "        startable = uploads[:free_upload_slots]\n        for upload in startable:")
# ---------------------------------------------------------------- C06
b('C06', 'QueuedState.pause forgets to cancel', 'transfer/state.py', "    async def pause(self) -> bool:\n        await self._cancel_transfer_tasks()\n        await self.transfer.transition(PausedState(self.transfer))\n        return True\n\n\nclass InitializingState",
  "    async def pause(self) -> bool:\n        await self.transfer.transition(PausedState(self.transfer))\n        return True\n\n\nclass InitializingState", 'R-C06-CANCEL-ALL')
b('C06', 'cancel_tasks forgets the remote queue task', 'transfer/model.py', "        if self._remotely_queue_task is not None:\n            tasks.append(self._remotely_queue_task)\n            self._remotely_queue_task.cancel()\n\n        if self._transfer_task is not None:\n            tasks.append(self._transfer_task)\n            self._transfer_task.cancel()",
  "        if self._transfer_task is not None:\n            tasks.append(self._transfer_task)\n            self._transfer_task.cancel()", 'R-C06-CANCEL-ALL')
b('C06', 'swallow cancellation in download', 'transfer/manager.py', "            logger.debug(\"requested to cancel transfer: %s\", transfer)\n            await connection.disconnect(CloseReason.REQUESTED)\n            raise\n\n        else:\n            await connection.disconnect(CloseReason.REQUESTED)",
  "            logger.debug(\"requested to cancel transfer: %s\", transfer)\n            await connection.disconnect(CloseReason.REQUESTED)\n\n        else:\n            await connection.disconnect(CloseReason.REQUESTED)", 'R-C06-TASK-CLEANUP')
b('C06', 'callback clears unconditionally', 'transfer/model.py', "        if self._transfer_task is task:\n            self._transfer_task = None", "        self._transfer_task = None", 'R-C06-SLOT-CLEAR')
b('C06', 'selection no longer excludes live tasks', 'transfer/manager.py', "            if any(not task.done() for task in transfer.get_tasks()):\n                continue\n", "", 'R-C06-SLOT-WRITE')
k('C06', 'cancel_tasks as a loop over get_tasks', 'transfer/model.py', "        tasks = []\n        if self._remotely_queue_task is not None:\n            tasks.append(self._remotely_queue_task)\n            self._remotely_queue_task.cancel()\n\n        if self._transfer_task is not None:\n            tasks.append(self._transfer_task)\n            self._transfer_task.cancel()\n\n        return tasks",
  "        tasks = self.get_tasks()\n        for task in tasks:\n            task.cancel()\n        return tasks")
k('C06', 'cancel_tasks as a loop over a tuple', 'transfer/model.py', "        tasks = []\n        if self._remotely_queue_task is not None:\n            tasks.append(self._remotely_queue_task)\n            self._remotely_queue_task.cancel()\n\n        if self._transfer_task is not None:\n            tasks.append(self._transfer_task)\n            self._transfer_task.cancel()\n\n        return tasks",
  "        tasks = [t for t in (self._remotely_queue_task, self._transfer_task) if t is not None]\n        for task in tasks:\n            task.cancel()\n        return tasks")
b('C06', 'cancel_tasks cancels only the first set slot', 'transfer/model.py', "        tasks = []\n        if self._remotely_queue_task is not None:\n            tasks.append(self._remotely_queue_task)\n            self._remotely_queue_task.cancel()\n\n        if self._transfer_task is not None:\n            tasks.append(self._transfer_task)\n            self._transfer_task.cancel()\n\n        return tasks",
  "        task = self._remotely_queue_task or self._transfer_task\n        if task is None:\n            return []\n        task.cancel()\n        return [task]", 'R-C06-CANCEL-ALL')
b('C06', 'cancel_tasks: second slot only if first empty', 'transfer/model.py', "        tasks = []\n        if self._remotely_queue_task is not None:\n            tasks.append(self._remotely_queue_task)\n            self._remotely_queue_task.cancel()\n\n        if self._transfer_task is not None:\n            tasks.append(self._transfer_task)\n            self._transfer_task.cancel()\n\n        return tasks",
  "        tasks = []\n        if self._remotely_queue_task is not None:\n            tasks.append(self._remotely_queue_task)\n            self._remotely_queue_task.cancel()\n        elif self._transfer_task is not None:\n            tasks.append(self._transfer_task)\n            self._transfer_task.cancel()\n\n        return tasks", 'R-C06-CANCEL-ALL')
k('C06', 'guard as nested if', 'transfer/model.py', "        if self._transfer_task is task:\n            self._transfer_task = None", "        if self._transfer_task is not task:\n            return\n        self._transfer_task = None")
# ---------------------------------------------------------------- C07
b('C07', 'drop IGNORECASE', 'shares/utils.py', "            r\"(?:(?<=\\W|_)|^){}(?=[\\W_]|$)\".format(re.escape(term)),\n            flags=re.IGNORECASE", "            r\"(?:(?<=\\W|_)|^){}(?=[\\W_]|$)\".format(re.escape(term)),\n            flags=0", 'R-C07-SPLIT')
b('C07', 'split on \\W only', 'shares/manager.py', "_QUERY_CLEAN_PATTERN = re.compile(r\"[\\W_]\")", "_QUERY_CLEAN_PATTERN = re.compile(r\"[\\W]\")", 'R-C07-SPLIT')
b('C07', 'materialise matchers', 'shares/manager.py', "for matcher in search_query.matchers_iter())", "for matcher in list(search_query.matchers_iter()))", 'R-C07-MATCHERS')
b('C07', 'exclude matcher not negated', 'search/model.py', "            yield lambda fn: not pattern.search(fn)", "            yield lambda fn: bool(pattern.search(fn))", 'R-C07-MATCHERS')
b('C07', 'alternatives intersected again', 'shares/manager.py', "                    wildcard_items: set[SharedItem] = set()\n                    for matching_term in matching_terms:\n                        wildcard_items |= set(self._term_map[matching_term])\n                    wildcard_item_sets.append(wildcard_items)",
  "                    for matching_term in matching_terms:\n                        wildcard_item_sets.append(set(self._term_map[matching_term]))", 'R-C07-PREFILTER')
b('C07', 'scan union without re-pointing', 'shares/manager.py', "            for item in shared_items:\n                item.shared_directory = shared_directory\n\n", "", 'R-C07-INDEX')
b('C07', 'removal only cleans the term map', 'shares/manager.py', "        # The items of the removed directory should no longer be found, even if\n        # something is still holding on to the removed directory\n        self.rebuild_term_map()", "        self._cleanup_term_map()", 'R-C07-INDEX')
k('C07', 'rename to_keep', 'shares/manager.py', "to_keep", "kept_items")
# ---------------------------------------------------------------- C08
b('C08', 'USERS lock inverted', 'shares/manager.py', "            return username not in directory.users", "            return username in directory.users", 'R-C08-LOCKFN')
b('C08', 'search reply without block test', 'search/manager.py', "        if self._settings.users.is_blocked(username, BlockingFlag.SEARCHES):\n            return\n", "", 'R-C08-BLOCK')
b('C08', 'search reply queries without user', 'search/manager.py', "            query,\n            username=username,\n            excluded_search_phrases=self.excluded_search_phrases", "            query,\n            username=None,\n            excluded_search_phrases=self.excluded_search_phrases", 'R-C08-GATE')
b('C08', 'BLOCKED evaluated before REQUESTED', 'transfer/manager.py', "            (_is_abort_requested, AbortReason.REQUESTED),\n            (_is_blocked, AbortReason.BLOCKED),", "            (_is_blocked, AbortReason.BLOCKED),\n            (_is_abort_requested, AbortReason.REQUESTED),", 'R-C08-REEVAL')
b('C08', 'phrase side not lowered', 'shares/manager.py', "if excl_phrase.lower() in found_item.get_query_path().lower():", "if excl_phrase in found_item.get_query_path().lower():", 'R-C08-CASE')
b('C08', 'shares request uses INFO flag', 'peer.py', "        if self._settings.users.is_blocked(connection.username, BlockingFlag.SHARES):\n            return\n\n        visible, locked", "        if self._settings.users.is_blocked(connection.username, BlockingFlag.INFO):\n            return\n\n        visible, locked", 'R-C08-BLOCK')
k('C08', 'block test as nested style', 'search/manager.py', "        if self._settings.users.is_blocked(username, BlockingFlag.SEARCHES):\n            return\n\n        visible, locked = self._shares_manager.query(",
  "        blocked = self._settings.users.is_blocked(username, BlockingFlag.SEARCHES)\n        if blocked:\n            return\n\n        visible, locked = self._shares_manager.query(")
# ---------------------------------------------------------------- C09
b('C09', 'split keeps dot components', 'utils.py', "        if part and part not in ('.', '..')", "        if part", 'R-C09-TAINT')
b('C09', 'default strategy indexes unguarded', 'naming.py', "        remote_path_parts = split_remote_path(remote_path)\n        if not remote_path_parts:\n            return local_dir, self.FALLBACK_FILENAME\n\n        return local_dir, remote_path_parts[-1]",
  "        return local_dir, split_remote_path(remote_path)[-1]", 'R-C09-TAINT')
b('C09', 'whole remote path as name', 'naming.py', "        return local_dir, remote_path_parts[-1]", "        return local_dir, remote_path", 'R-C09-TAINT')
b('C09', 'max instead of free index', 'naming.py', "            next_index = min(possible_indices - set(indices))", "            next_index = max(possible_indices)", 'R-C09-NUMBER')
k('C09', 'rename contained_dir', 'naming.py', "contained_dir", "parent_name")
# ---------------------------------------------------------------- C10
b('C10', 'disconnect not idempotent', 'network/connection.py', "        if self.state in (ConnectionState.CLOSED, ConnectionState.CLOSING):\n            return\n\n        await self.set_state(ConnectionState.CLOSING, close_reason=reason)\n        adapter.debug(\"disconnecting : %s\", reason.name, extra=self.__dict__)\n        self._cancel_queued_messages()",
  "        await self.set_state(ConnectionState.CLOSING, close_reason=reason)\n        adapter.debug(\"disconnecting : %s\", reason.name, extra=self.__dict__)\n        self._cancel_queued_messages()", 'R-C10-IDEMPOTENT')
b('C10', 'send ignores _is_closing', 'network/connection.py', "        if self._is_closing:\n            adapter.warning(\n                \"not sending message, connection is closing / closed : %s\",\n                message,\n                extra=self.__dict__\n            )\n            return\n", "", 'R-C10-AFTER-CLOSED')
b('C10', 'unregister skipped', 'network/network.py', "        if state == ConnectionState.CLOSED:\n            self.remove_peer_connection(connection)", "        if state == ConnectionState.CLOSED and close_reason != CloseReason.UNKNOWN:\n            self.remove_peer_connection(connection)", 'R-C10-REGISTRY')
b('C10', 'accepted connection registered twice elsewhere', 'network/network.py', "    def remove_peer_connection(self, connection: PeerConnection):\n        if connection in self.peer_connections:\n            self.peer_connections.remove(connection)",
  "    def remove_peer_connection(self, connection: PeerConnection):\n        if connection in self.peer_connections:\n            self.peer_connections.remove(connection)\n\n    def forget_all(self):\n        self.peer_connections.clear()", 'R-C10-REGISTRY')
b('C10', 'accept without state re-check', 'network/connection.py', "        if connection.state == ConnectionState.UNINITIALIZED:\n            await connection.set_state(ConnectionState.CONNECTED)", "        await connection.set_state(ConnectionState.CONNECTED)", 'R-C10-MONO')
b('C10', 'direct attempt envelope narrowed', 'network/network.py', "        except BaseException:\n            # Failed or cancelled (for example: lost the race against the\n            # indirect connection), don't leave the connection behind",
  "        except Exception:\n            # Failed or cancelled (for example: lost the race against the\n            # indirect connection), don't leave the connection behind", 'R-C10-REGISTRY-PAIR')
k('C10', 'state guard via _is_closing', 'network/connection.py', "        if self.state in (ConnectionState.CLOSED, ConnectionState.CLOSING):\n            return\n\n        await self.set_state(ConnectionState.CLOSING, close_reason=reason)",
  "        if self._is_closing:\n            return\n\n        await self.set_state(ConnectionState.CLOSING, close_reason=reason)")
# ---------------------------------------------------------------- C11
b('C11', 'pending waiters not cancelled', 'network/network.py', "            for fut in futures:\n                if not fut.done():\n                    fut.cancel()\n", "            pass\n", 'R-C11-WAITERS')
b('C11', 'race loser not cancelled', 'network/network.py', "                            pending_task.cancel()\n                        await asyncio.gather(*pending, return_exceptions=True)", "                            pass\n                        await asyncio.gather(*pending, return_exceptions=True)", 'R-C11-LOSER')
b('C11', 'fallback catches only PeerConnectionError', 'network/network.py', "        except NetworkError as exc:\n            logger.debug(\n                \"direct connection (%s) to peer failed", "        except PeerConnectionError as exc:\n            logger.debug(\n                \"direct connection (%s) to peer failed", 'R-C11-ERRMAP')
b('C11', 'cannot-connect carries wrong ticket', 'network/network.py', "                    CannotConnect.Request(\n                        ticket=message.ticket,", "                    CannotConnect.Request(\n                        ticket=0,", 'R-C11-CONNECTBACK')
b('C11', 'select_port rows swapped', 'network/network.py', "            if prefer_obfuscated:\n                return obfuscated_port, True\n            else:\n                return port, False", "            if prefer_obfuscated:\n                return port, False\n            else:\n                return obfuscated_port, True", 'R-C11-SELECT')
b('C11', 'pierce path skips finalize', 'network/network.py', "                    connection.connection_type = connection_future.typ\n                    self._finalize_peer_connection(connection)\n", "                    connection.connection_type = connection_future.typ\n", 'R-C11-INIT')
k('C11', 'comprehension instead of loop for cancel', 'network/network.py', "            for fut in futures:\n                if not fut.done():\n                    fut.cancel()\n", "            [fut.cancel() for fut in futures if not fut.done()]\n")
# ---------------------------------------------------------------- C12
b('C12', 'done guard removed', 'network/network.py', "            if expected_response.done():\n                continue\n\n", "", 'R-C12-FUTURE')
b('C12', 'break after first completion', 'network/network.py', "                expected_response.set_result((connection, message, ))\n\n    async def _on_session_initialized", "                expected_response.set_result((connection, message, ))\n                break\n\n    async def _on_session_initialized", 'R-C12-ITER')
b('C12', 'matches ignores peer', 'network/network.py', "            if connection.username != self.peer:\n                return False\n", "            pass\n", 'R-C12-MATCH')
b('C12', 'send failure keeps waiter', 'client.py', "            if response and response_future:\n                response_future.cancel()\n            raise", "            raise", 'R-C12-SENDFAIL')
b('C12', 'waiter registered after send', 'client.py', "        response_future = command.build_expected_response(self)\n        if response and response_future:\n            self.network.register_response_future(response_future)\n\n        try:\n            await command.send(self)\n        except Exception:\n            if response and response_future:\n                response_future.cancel()\n            raise\n",
  "        response_future = command.build_expected_response(self)\n\n        try:\n            await command.send(self)\n        except Exception:\n            if response and response_future:\n                response_future.cancel()\n            raise\n\n        if response and response_future:\n            self.network.register_response_future(response_future)\n", 'R-C12-SENDFAIL')
k('C12', 'done test folded into the condition', 'network/network.py', "            if expected_response.done():\n                continue\n\n            if expected_response.matches(connection, message):", "            if not expected_response.done() and expected_response.matches(connection, message):")
# ---------------------------------------------------------------- C13
b('C13', 'potential parent test dropped', 'distributed.py', "        if peer.username in self.potential_parents:\n            return\n", "", 'R-C13-ADMIT')
b('C13', 'max children weakened', 'distributed.py', "        if len(self.children) >= self._max_children:", "        if len(self.children) > self._max_children:", 'R-C13-ADMIT')
b('C13', 'child appended directly', 'distributed.py', "            self.distributed_peers.append(peer)\n", "            self.distributed_peers.append(peer)\n            if event.requested:\n                self.children.append(peer)\n", 'R-C13-ADMIT')
b('C13', 'unset parent silent to server', 'distributed.py', "        username = self._session.user.name\n        await self._notify_server_of_parent()\n", "        username = self._session.user.name\n", 'R-C13-ADVERT')
b('C13', 'level without + 1', 'distributed.py', "return self.parent.branch_root, self.parent.branch_level + 1  # type: ignore", "return self.parent.branch_root, self.parent.branch_level  # type: ignore", 'R-C13-ADVERT')
b('C13', 'child may become parent again', 'distributed.py', "        if peer in self.children:\n            return\n\n        # Explicit None checks", "        # Explicit None checks", 'R-C13-PARENT')
k('C13', 'invert parent test', 'distributed.py', "            if not self.parent:\n                await self._set_parent(peer)\n            else:\n                await peer.connection.disconnect(reason=CloseReason.REQUESTED)",
  "            if self.parent:\n                await peer.connection.disconnect(reason=CloseReason.REQUESTED)\n            else:\n                await self._set_parent(peer)")
# ---------------------------------------------------------------- C14
b('C14', 'fan-out over all distributed peers', 'distributed.py', "        for child in self.children:\n            child.connection.queue_messages(*messages)", "        for child in self.distributed_peers:\n            child.connection.queue_messages(*messages)", 'R-C14-FANOUT')
b('C14', 'also back to the parent', 'distributed.py', "        await self.send_messages_to_children(message)\n\n    @on_message(DistributedServerSearchRequest.Request)", "        await self.send_messages_to_children(message)\n        if self.parent:\n            self.parent.connection.queue_messages(message)\n\n    @on_message(DistributedServerSearchRequest.Request)", 'R-C14-FANOUT')
b('C14', 'ticket field swapped', 'distributed.py', "                username=message.username,\n                ticket=message.ticket,\n                query=message.query\n            )\n        )", "                username=message.username,\n                ticket=message.unknown,\n                query=message.query\n            )\n        )", 'R-C14-FIELDS')
b('C14', 'reply sent to self', 'search/manager.py', "            self._network.send_peer_messages(\n                username,\n                PeerSearchReply.Request(", "            self._network.send_peer_messages(\n                self._session.user.name,\n                PeerSearchReply.Request(", 'R-C14-REPLY')
b('C14', 'empty result still answered', 'search/manager.py', "        if len(visible) + len(locked) == 0:\n            return\n", "", 'R-C14-REPLY')
b('C14', 'own searches answered', 'search/manager.py', "        if message.username == self._session.user.name:\n            return\n\n        await self._query_shares_and_reply(\n            message.ticket, message.username, message.query)\n\n    @on_message(PeerSearchReply.Request)",
  "        await self._query_shares_and_reply(\n            message.ticket, message.username, message.query)\n\n    @on_message(PeerSearchReply.Request)", 'R-C14-OWN')
k('C14', 'forwarded message renamed', 'distributed.py', "dmessage", "forwarded")
# ---------------------------------------------------------------- C15
b('C15', 'untrack without previous flags test', 'user/manager.py', "                if previous_flags != TrackingFlag(0):\n                    await self._request_untracking(tracked_user)", "                if True:\n                    await self._request_untracking(tracked_user)", 'R-C15-EDGES')
b('C15', 'AddUser on every request', 'user/manager.py', "            elif previous_flags == TrackingFlag(0) or is_retry:", "            else:", 'R-C15-EDGES')
b('C15', 'stop forgets retry task', 'user/manager.py', "            if tracked_user.retry_task:\n                tracked_user.retry_task.cancel()\n                tasks.append(tracked_user.retry_task)\n", "", 'R-C15-RESET')
b('C15', 'RemoveUser sent from untrack_user directly', 'user/manager.py', "        request = TrackingRequest(tracked_user.remove_flag, flag)\n        tracked_user.queue.put_nowait(request)\n", "        request = TrackingRequest(tracked_user.remove_flag, flag)\n        tracked_user.queue.put_nowait(request)\n        self._network.queue_server_messages(RemoveUser.Request(user.name))\n", 'R-C15-OWNERS')
b('C15', 'lookups ignore finished workers', 'user/manager.py', "        if tracked_user is None or tracked_user.task is None or tracked_user.task.done():\n            tracked_user = TrackedUser(user)", "        if tracked_user is None:\n            tracked_user = TrackedUser(user)", 'R-C15-NOLOSS')
k('C15', 'compare flags with not', 'user/manager.py', "                if tracked_user.queue.empty():\n                    request.handled.set()\n                    return", "                if tracked_user.queue.empty():\n                    request.handled.set()\n                    return None")
# ---------------------------------------------------------------- C16
b('C16', 'interest handler not registered', 'interest/manager.py', "        self._event_bus.register(\n            SessionInitializedEvent, self._on_session_initialized)\n", "", 'R-C16-ADVERT')
b('C16', 'hated advertised as liked', 'interest/manager.py', "        for interest in self._settings.interests.liked:", "        for interest in self._settings.interests.hated:", 'R-C16-ADVERT')
b('C16', 'auto join inverted', 'room/manager.py', "        if self._settings.rooms.auto_join:\n            await self.auto_join_rooms()", "        if not self._settings.rooms.auto_join:\n            await self.auto_join_rooms()", 'R-C16-ADVERT')
b('C16', 'watchdog also stopped on READ_ERROR', 'network/network.py', "            if close_reason == CloseReason.REQUESTED:\n                self.stop_server_connection_watchdog()", "            if close_reason in (CloseReason.REQUESTED, CloseReason.READ_ERROR):\n                self.stop_server_connection_watchdog()", 'R-C16-RECONNECT')
b('C16', 'service removed', 'client.py', "            self.searches,\n            self.server_manager,", "            self.server_manager,", 'R-C16-TASKS')
b('C16', 'execute without session test', 'client.py', "        if self.session is None:\n            raise InvalidSessionError(\"client is not logged in\")\n", "", 'R-C16-REFUSE')
b('C16', 'session cleared after emit', 'client.py', "                    self.session = None\n                    await self.events.emit(session_event)", "                    await self.events.emit(session_event)\n                    self.session = None", 'R-C16-DESTROY')
k('C16', 'reorder registrations', 'interest/manager.py', "        self._event_bus.register(\n            MessageReceivedEvent, self._on_message_received)\n        self._event_bus.register(\n            SessionInitializedEvent, self._on_session_initialized)",
  "        self._event_bus.register(\n            SessionInitializedEvent, self._on_session_initialized)\n        self._event_bus.register(\n            MessageReceivedEvent, self._on_message_received)")
# ---------------------------------------------------------------- C17
b('C17', '_state_lock pickled', 'transfer/model.py', "        '_state_lock',\n", "", 'R-C17-FIELDS')
b('C17', 'state_listeners not re-created', 'transfer/model.py', "        self._state_lock = asyncio.Lock()\n        self.state_listeners = []", "        self._state_lock = asyncio.Lock()", 'R-C17-FIELDS')
b('C17', 'INITIALIZING not repaired', 'transfer/manager.py', "            if transfer.state.VALUE == TransferState.INITIALIZING:\n                await transfer.state.queue()\n\n            elif transfer.is_transferring():", "            if transfer.is_transferring():", 'R-C17-REPAIR')
b('C17', 'loaded transfers not added', 'transfer/manager.py', "                transfer.reset_time_vars()\n\n            await self.add(transfer)", "                transfer.reset_time_vars()\n                await self.add(transfer)", 'R-C17-REPAIR')
b('C17', 'stale keys kept', 'transfer/cache.py', "            for key_to_delete in keys_to_delete:\n                database.pop(key_to_delete)", "            pass", 'R-C17-WRITE')
k('C17', 'reorder re-initialisations', 'transfer/model.py', "        self._remotely_queue_task = None\n        self._transfer_task = None\n        self._state_lock = asyncio.Lock()", "        self._state_lock = asyncio.Lock()\n        self._transfer_task = None\n        self._remotely_queue_task = None")
# ---------------------------------------------------------------- C18
b('C18', 'lookup by wrong field', 'search/manager.py', "            query = self.requests[message.ticket]", "            query = self.requests[message.queue_size]", 'R-C18-LOOKUP')
b('C18', 'result on the KeyError branch', 'search/manager.py', "            logger.warning(\"search reply ticket does not match any search request : %d\", message.ticket)\n", "            logger.warning(\"search reply ticket does not match any search request : %d\", message.ticket)\n            await self._event_bus.emit(SearchResultEvent(None, search_result))\n", 'R-C18-LOOKUP')
b('C18', 'cancel does not cancel', 'tasks.py', "        task = self._task\n        self._task.cancel()\n        self._task = None\n        return task", "        task = self._task\n        self._task = None\n        return task", 'R-C18-TIMERCLASS')
b('C18', 'reschedule without cancel', 'tasks.py', "        self.cancel()\n        self.start()", "        self.start()", 'R-C18-TIMERCLASS')
b('C18', 'remove_request keeps the timer', 'search/manager.py', "        if removed_request.timer:\n            removed_request.timer.cancel()\n", "", 'R-C18-TIMER')
b('C18', 'wishlist uses a second generator', 'search/manager.py', "        for item in enabled_items:\n            ticket = next(self._ticket_generator)", "        for item in enabled_items:\n            ticket = next(self._network._ticket_generator)", 'R-C18-TICKETS')
k('C18', 'pop under guard in timeout callback', 'search/manager.py', "            del self.requests[request.ticket]\n            await self._event_bus.emit(SearchRequestRemovedEvent(request))", "            self.requests.pop(request.ticket)\n            await self._event_bus.emit(SearchRequestRemovedEvent(request))")
# ---------------------------------------------------------------- C19
for _h, _old, _new in (
        ('user joined discards', "        room.add_user(user)\n\n        await self._event_bus.emit(\n            RoomJoinedEvent(\n                room=room,\n                user=user,", "        room.remove_user(user)\n\n        await self._event_bus.emit(\n            RoomJoinedEvent(\n                room=room,\n                user=user,"),
        ('grant membership discards', "        room.members.add(message.username)", "        room.members.discard(message.username)"),
        ('own membership revoked adds', "        room.members.discard(user.name)\n        room.operators.discard(user.name)", "        room.members.add(user.name)\n        room.operators.discard(user.name)"),
        ('grant operator discards', "        room.operators.add(message.username)", "        room.operators.discard(message.username)"),
        ('tickers updated instead of replaced', "        room.tickers = tickers\n", "        room.tickers.update(tickers)\n"),
        ('leave keeps users', "        room.joined = False\n        room.users = []", "        room.joined = False"),
):
    b('C19', _h, 'room/manager.py', _old, _new, 'R-C19-EFFECTS')
b('C19', 'event carries username as room', 'room/manager.py', "            RoomMembershipGrantedEvent(\n                room=room,\n                member=user,", "            RoomMembershipGrantedEvent(\n                room=user,\n                member=user,", 'R-C19-TARGET')
b('C19', 'room chat block test dropped', 'room/manager.py', "        if self._settings.users.is_blocked(message.username, BlockingFlag.ROOM_MESSAGES):\n            return\n\n        user = self._user_manager.get_user_object(message.username)\n        room = self.get_or_create_room(message.room)\n        room_message",
  "        user = self._user_manager.get_user_object(message.username)\n        room = self.get_or_create_room(message.room)\n        room_message", 'R-C19-BLOCK')
b('C19', 'status from wrong field', 'user/manager.py', "        user.status = UserStatus(message.status)\n        user.privileged = message.privileged", "        user.status = UserStatus(message.status)\n        user.privileged = bool(message.status)", 'R-C19-EFFECTS')
k('C19', 'rename local user', 'room/manager.py', "        user = self._user_manager.get_user_object(message.username)\n        room = self.get_or_create_room(message.room)\n        room.remove_user(user)\n\n        await self._event_bus.emit(\n            RoomLeftEvent(\n                room=room,\n                user=user,",
  "        leaver = self._user_manager.get_user_object(message.username)\n        room = self.get_or_create_room(message.room)\n        room.remove_user(leaver)\n\n        await self._event_bus.emit(\n            RoomLeftEvent(\n                room=room,\n                user=leaver,")
# ---------------------------------------------------------------- C20
b('C20', 'clamp removed', 'network/rate_limiter.py', "        self.bucket += token_amount\n        if self.bucket > self.limit_bps:\n            self.bucket = self.limit_bps", "        self.bucket += token_amount", 'R-C20-CAP')
b('C20', 'copy_tokens assigns bucket', 'network/rate_limiter.py', "        self.add_tokens(other.bucket)\n        self.last_refill = other.last_refill", "        self.bucket = other.bucket\n        self.last_refill = other.last_refill", 'R-C20-CAP')
b('C20', 'send_file reads a constant chunk', 'network/connection.py', "            data = await file_handle.read(bytes_to_write)", "            data = await file_handle.read(65536)", 'R-C20-GATE')
b('C20', 'returns twice what it deducts', 'network/rate_limiter.py', "                self.bucket -= self.MIN_BUCKET_SIZE\n                return self.MIN_BUCKET_SIZE", "                self.bucket -= self.MIN_BUCKET_SIZE\n                return self.MIN_BUCKET_SIZE * 2", 'R-C20-CAP')
b('C20', 'file connection gets its own limiter', 'network/network.py', "            connection.upload_rate_limiter = self._upload_rate_limiter\n\n        else:", "            connection.upload_rate_limiter = RateLimiter.create_limiter(self._settings.network.limits.upload_speed_kbps)\n\n        else:", 'R-C20-SHARED')
b('C20', 'refill does not advance the clock', 'network/rate_limiter.py', "        self.last_refill = current_time\n\n        return self.is_empty()", "        return self.is_empty()", 'R-C20-CAP')
k('C20', 'rename bytes_to_write', 'network/connection.py', "bytes_to_write", "granted")

V[:] = [v for v in V if v[6] != 'NONE']


def _apply(root: str, rel: str, old: str, new: str) -> str:
    path = os.path.join(root, 'src', 'aioslsk', rel)
    src = open(path).read()
    if src.count(old) < 1:
        return 'stale'
    src2 = src.replace(old, new) if old in ('to_keep', 'contained_dir', 'bytes_to_write', 'dmessage') else src.replace(old, new, 1)
    try:
        ast.parse(src2)
    except SyntaxError as exc:
        return f'does-not-compile: {exc}'
    open(path, 'w').write(src2)
    return 'ok'


def _mech(root: str, mode: str) -> str:
    """Whole-tree mechanical refactoring (tools/mech_controls.py): rename every local, swap if-else, guard clauses -> nested else, conditional expressions -> statements, and combinations."""
    import importlib.util
    spec = importlib.util.spec_from_file_location('mech_controls', os.path.join(VERIF, 'tools', 'mech_controls.py'))
    mc = importlib.util.module_from_spec(spec)
    spec.loader.exec_module(mc)
    for dp, dn, fns in os.walk(os.path.join(root, 'src', 'aioslsk')):
        for fn in fns:
            if fn.endswith('.py'):
                p_ = os.path.join(dp, fn)
                out = mc.transform(open(p_).read(), mode)
                try:
                    compile(out, p_, 'exec')
                except SyntaxError as exc:
                    return f'does-not-compile: {exc}'
                open(p_, 'w').write(out)
    return 'ok'


def _keys(pid: str, root: str):
    """Run the property's rules on `root` in this process and return (exit-like, violation keys)."""
    import importlib
    import sys
    sys.path.insert(0, VERIF)
    from sa.engine import Engine
    from sa.loader import AnalysisError
    from sa.report import Check, load_known
    from sa import cfg as cfgmod
    cfgmod._CFG_CACHE.clear()
    mod = importlib.import_module(f'rules.{pid.lower()}')
    ck = Check(pid, 'thorough')
    try:
        eng_ = Engine(root)
        mod.run(eng_, ck)
        from rules import hygiene
        hygiene.for_property(eng_, ck, pid)
    except AnalysisError as exc:
        return 2, set(), str(exc)
    except Exception as exc:  # pragma: no cover
        return 2, set(), f'internal error: {exc!r}'
    keys = {o.key for o in ck.obligations if not o.ok and not o.advisory}
    broken = [r for r, (f, m) in ck.floors.items() if f < m]
    return (1 if keys else (2 if broken else 0)), keys, ','.join(broken)


def _run_variant(args):
    pid, kind, name, rel, old, new, rule, src_root, base_keys = args
    tmp = tempfile.mkdtemp(prefix='aioslsk-verif-selftest-')
    try:
        shutil.copytree(os.path.join(src_root, 'src'), os.path.join(tmp, 'src'), ignore=shutil.ignore_patterns('__pycache__'))
        if kind == 'mech':
            st = _mech(tmp, old)
        elif kind in ('seed', 'control'):
            r = subprocess.run(['patch', '-p1', '-s', '--no-backup-if-mismatch', '-i', old], cwd=tmp, capture_output=True, text=True)
            st = 'ok' if r.returncode == 0 else 'stale'
        else:
            st = _apply(tmp, rel, old, new)
        if st != 'ok':
            return (pid, kind, name, 'stale' if st == 'stale' else 'invalid', st, [])
        rc, keys, info = _keys(pid, tmp)
        new_keys = sorted(keys - set(base_keys))
        if kind in ('break', 'seed'):
            hit = [x for x in new_keys if rule is None or x.startswith(rule)]
            ok = bool(hit)
            return (pid, kind, name, 'ok' if ok else 'MISSED', f'rc={rc} {info}', new_keys[:4])
        ok = rc != 2 and not new_keys
        if not ok and rc == 2 and not new_keys and kind == 'control':
            # a control this property's check is documented not to decide (controls/UNDECIDED.json): exit 2 is the expected, honest answer
            und = json.load(open(os.path.join(VERIF, 'controls', 'UNDECIDED.json'))) if os.path.exists(os.path.join(VERIF, 'controls', 'UNDECIDED.json')) else {}
            if pid in und.get(name, {}).get('checks', []):
                return (pid, kind, name, 'ok', f'rc=2 undecided as documented: {info[:80]}', [])
        return (pid, kind, name, 'ok' if ok else 'FALSE-ALARM', f'rc={rc} {info}', new_keys[:4])
    finally:
        shutil.rmtree(tmp, ignore_errors=True)


def resolver_crosscheck(root: str) -> dict:
    import subprocess
    import tempfile
    tool = os.path.join(VERIF, 'tools', 'mypy_xcheck.py')
    try:
        import importlib.util
        if importlib.util.find_spec('mypy') is None:
            return {'status': 'skipped', 'reason': 'mypy is not installed in the interpreter that runs the checks'}
    except Exception as exc:       # pragma: no cover
        return {'status': 'skipped', 'reason': repr(exc)}
    with tempfile.TemporaryDirectory() as d:
        out = os.path.join(d, 'x.json')
        r = subprocess.run([sys.executable, tool, '--repo', root, '--json', out], capture_output=True, text=True, timeout=600)
        lines = [l for l in r.stdout.splitlines() if l.startswith(('DISAGREE', 'UNSEEN-ANCHOR-CALL', 'call sites'))]
        res = json.load(open(out)) if os.path.exists(out) else {}
    if r.returncode == 0:
        return {'status': 'agree', 'summary': lines[-1] if lines else '', 'agree': res.get('agree'), 'mypy_only': res.get('mypy_only'), 'sa_only': res.get('sa_only')}
    if r.returncode == 1:
        return {'status': 'disagree', 'lines': lines[:10]}
    return {'status': 'skipped', 'reason': (r.stderr or r.stdout)[-300:]}


def run(pid: str, seed: int, check) -> dict:
    from sa.loader import REPO_ROOT
    root = os.environ.get('AIOSLSK_REPO', REPO_ROOT)
    base_keys = sorted({o.key for o in check.obligations if not o.ok and not o.advisory})
    jobs = [(p, kd, nm, rel, old, new, rule, root, base_keys) for (p, kd, nm, rel, old, new, rule) in V if p == pid]
    sd = os.path.join(VERIF, 'seeded')
    if os.path.isdir(sd):
        for name in sorted(os.listdir(sd)):
            mp_ = os.path.join(sd, name, 'meta.json')
            if os.path.exists(mp_) and json.load(open(mp_)).get('property') == pid:
                jobs.append((pid, 'seed', name, '', os.path.join(sd, name, 'patch.diff'), '', None, root, base_keys))
    # refactoring controls: behaviour-preserving patches written by sub-agents for every property; all of them must leave THIS
    # property's check silent (they are applied one at a time to a scratch copy)
    cd = os.path.join(VERIF, 'controls')
    if os.path.isdir(cd):
        for name in sorted(os.listdir(cd)):
            if name.endswith('.patch'):
                jobs.append((pid, 'control', name[:-6], '', os.path.join(cd, name), '', None, root, base_keys))
    for mode in ('rename', 'swapif', 'both', 'nest', 'ifexp', 'all'):
        jobs.append((pid, 'mech', f'whole tree: {mode}', '', mode, '', None, root, base_keys))
    random.Random(seed).shuffle(jobs)
    with mp.Pool(min(16, max(1, len(jobs)))) as pool:
        results = pool.map(_run_variant, jobs)
    failed = [f'{r[1]} variant "{r[2]}": {r[3]} ({r[4]}; new keys {r[5]})' for r in results if r[3] in ('MISSED', 'FALSE-ALARM', 'invalid')]
    # cross-check of the call resolution against mypy's typed tree (tools/mypy_xcheck.py; mypy is part of the repository's own environment)
    xc = resolver_crosscheck(root)
    if xc.get('status') == 'disagree':
        failed.append(f'resolver cross-check: {xc.get("lines")}')
    return {
        'resolver_crosscheck': xc,
        'variants': len(results),
        'break_detected': sum(1 for r in results if r[1] in ('break', 'seed') and r[3] == 'ok'),
        'break_total': sum(1 for r in results if r[1] in ('break', 'seed') and r[3] != 'stale'),
        'keep_silent': sum(1 for r in results if r[1] == 'keep' and r[3] == 'ok'),
        'keep_total': sum(1 for r in results if r[1] == 'keep' and r[3] != 'stale'),
        'controls_silent': sum(1 for r in results if r[1] in ('control', 'mech') and r[3] == 'ok'),
        'controls_total': sum(1 for r in results if r[1] in ('control', 'mech') and r[3] != 'stale'),
        'stale': [r[2] for r in results if r[3] == 'stale'],
        'failed': failed,
        'samples': [{'kind': r[1], 'variant': r[2], 'result': r[3], 'new_violation_keys': r[5]} for r in sorted(results, key=lambda r: (r[1], r[2])) if r[1] not in ('control', 'mech') or r[3] != 'ok'],
    }
