"""Glue: repo + resolver + CFG helpers used by the rule modules."""
from __future__ import annotations
import ast
from typing import Callable, Iterable, Optional

from . import cfg as cfgmod
from .astx import (walk_local, walk_with_lambdas, unparse, attr_chain, call_name, mentions, mentions_attr,
                   calls_in, alpha_key, enclosing_stmt, parent, FUNC_NODES)
from .cfg import CFG, Node, cfg_of
from . import astx
from .loader import Repo, FuncInfo, ClassInfo, AnalysisError
from .resolve import Resolver


class Engine:
    def __init__(self, root: Optional[str] = None):
        self.repo = Repo(root) if root else Repo()
        self.res = Resolver(self.repo)
        astx.CURRENT_REPO[0] = self.repo
        self._register_exceptions()

    def _register_exceptions(self):
        mod = self.repo.modules.get('exceptions.py')
        if mod is None:
            raise AnalysisError('anchor module vanished: exceptions.py')
        for ci in self.repo.all_classes():
            if ci.module is mod:
                base = ci.bases[0].split('.')[-1] if ci.bases else 'Exception'
                cfgmod.register_exception_class(ci.name, base)

    # ------------------------------------------------------------ lookup
    def func(self, rel: str, qualname: str) -> FuncInfo:
        return self.repo.func(rel, qualname)

    def cls(self, name: str, rel: Optional[str] = None) -> ClassInfo:
        return self.repo.cls(name, rel)

    def cfg(self, fn: FuncInfo) -> CFG:
        return cfg_of(fn.node)

    def calls(self, fn: FuncInfo, *names: str) -> list[ast.Call]:
        return [c for c in calls_in(fn.node) if not names or call_name(c) in names]

    # ------------------------------------------------------------ guards
    def guards_at(self, fn: FuncInfo, node: ast.AST) -> list[tuple[ast.AST, bool, Node]]:
        """(test expr, polarity, assume node) for every branch condition that
        dominates *all* CFG copies of the statement containing `node`."""
        c = self.cfg(fn)
        ns = [n for n in c.nodes_for(node) if n in c.reachable_nodes()]
        if not ns:
            return []
        per = []
        for n in ns:
            per.append({(id(a.ast), a.polarity): a for a in c.path_condition(n) if a.kind == 'assume'})
        common = set(per[0])
        for p in per[1:]:
            common &= set(p)
        out = []
        for k in common:
            a = per[0][k]
            for (e, pol) in split_conj(a.ast, a.polarity):
                out.append((e, pol, a))
        out = sorted(out, key=lambda t: t[2].id)
        # inside a comprehension the element expression is evaluated only for elements that passed the `if`s of its generators
        from .astx import ancestors as _anc
        prev = node
        for a_ in _anc(node):
            if isinstance(a_, ast.stmt):
                break
            if isinstance(a_, (ast.ListComp, ast.SetComp, ast.GeneratorExp, ast.DictComp)):
                conds = []
                in_elt = prev in ([a_.key, a_.value] if isinstance(a_, ast.DictComp) else [a_.elt])
                for g in a_.generators:
                    if prev is g:
                        # node sits in this generator: in its iterable (no condition of it applies) or in one of its ifs (earlier ifs apply)
                        for i_ in g.ifs:
                            if any(x is node for x in ast.walk(i_)):
                                break
                            if not any(x is node for x in ast.walk(g.iter)):
                                conds.append(i_)
                        break
                    conds.extend(g.ifs)
                if in_elt or prev in a_.generators:
                    for i_ in conds:
                        for (e, pol) in split_conj(i_, True):
                            out.append((e, pol, ns[0]))
            prev = a_
        return out

    def guarded_by(self, fn: FuncInfo, node: ast.AST, pred: Callable[[ast.AST, bool], bool],
                   no_suspension: bool = False) -> Optional[tuple[ast.AST, bool, Node]]:
        """First dominating guard atom accepted by pred(expr, polarity). With
        no_suspension the guard is ignored if a suspension point lies on a path
        between the guard and the node (shared state may have changed)."""
        c = self.cfg(fn)
        for e, pol, a in self.guards_at(fn, node):
            if pred(e, pol):
                if no_suspension:
                    bad = False
                    for n in c.nodes_for(node):
                        if c.suspension_between(a, n) is not None:
                            bad = True
                    if bad:
                        continue
                return (e, pol, a)
        return None

    def unguarded_path(self, fn: FuncInfo, node: ast.AST, pred: Callable[[ast.AST, bool], bool],
                       expand: Optional[Callable[[ast.AST], ast.AST]] = None) -> Optional[str]:
        """Path-sensitive must-check-before: every path that reaches `node` must have
        passed, AFTER its last suspension point, a branch edge whose condition atom
        satisfies pred(expr, polarity). Returns a witness path (text) from the entry
        or from a suspension point to the node that passes no such edge, else None."""
        c = self.cfg(fn)
        targets = [n for n in c.nodes_for(node) if n in c.reachable_nodes()]
        if not targets:
            return None
        cache: dict[int, bool] = {}

        def is_guard(n: Node) -> bool:
            if n.kind != 'assume':
                return False
            if n.id not in cache:
                e = expand(n.ast) if expand else n.ast
                cache[n.id] = any(pred(a, pol) for a, pol in split_conj(e, n.polarity))
            return cache[n.id]
        starts = [c.entry] + [n for n in c.reachable_nodes() if n.suspends and n not in targets]
        for s in sorted(starts, key=lambda n: n.id):
            nxt = [x for x, lab in s.succ]
            p = c.find_path(nxt, lambda n: n in targets, avoid=lambda n: is_guard(n) or (n.suspends and n not in targets))
            if p is None and any(x in targets for x in nxt):
                p = [(x, 'next') for x in nxt if x in targets][:1]
            if p is not None:
                return f'from line {s.lineno or "entry"}: ' + c.describe_path(p, fn.where)
        return None

    def handler_context(self, fn: FuncInfo, node: ast.AST) -> list[ast.ExceptHandler]:
        """except-handlers whose body (lexically) contains node."""
        out = []
        cur = parent(node)
        while cur is not None and cur is not fn.node:
            if isinstance(cur, ast.ExceptHandler):
                out.append(cur)
            cur = parent(cur)
        return out

    def enclosing_trys(self, fn: FuncInfo, node: ast.AST) -> list[tuple[ast.Try, str]]:
        """(try statement, part) for every try that lexically encloses node;
        part in body|handler|orelse|finalbody."""
        out = []
        child = node
        cur = parent(node)
        while cur is not None and cur is not fn.node:
            if isinstance(cur, ast.Try):
                part = 'body'
                for nm in ('body', 'orelse', 'finalbody'):
                    if any(child is s for s in getattr(cur, nm)):
                        part = nm
                out.append((cur, part))
            if isinstance(cur, ast.ExceptHandler):
                # the try is the parent; report as handler
                t = parent(cur)
                out.append((t, 'handler'))
                child = t
                cur = parent(t)
                continue
            child = cur
            cur = parent(cur)
        return out

    # -------------------------------------------------------------- PAIR
    def is_new(self, fn: FuncInfo) -> bool:
        """A function the rule set has never seen (not in tables/known_functions.json) and that the inliner had to leave alone."""
        k = self.repo.known_funcs
        return bool(k) and fn.key not in k and '<locals>' not in fn.qualname

    def scope(self, fn: FuncInfo, depth: int = 3) -> list[FuncInfo]:
        """fn plus the NEW helpers it (transitively) calls: the region a rule anchored on fn has to look at when a refactoring
        moved part of fn into a helper that could not be inlined (e.g. called from a comprehension)."""
        out, todo = [fn], [(fn, 0)]
        while todo:
            f, d = todo.pop()
            if d >= depth:
                continue
            for c in calls_in(f.node):
                for g in self.res.callees(c, f):
                    if self.is_new(g) and g not in out:
                        out.append(g)
                        todo.append((g, d + 1))
        return out

    def falls_off_end(self, fn: FuncInfo) -> bool:
        """True if the function's normal exit is reachable without passing a `return` statement (implicit `return None`)."""
        c = self.cfg(fn)
        return c.find_path([c.entry], lambda n: n.kind == 'exit_return', avoid=lambda n: isinstance(n.ast, ast.Return)) is not None

    def leak_paths(self, fn: FuncInfo, acquire: ast.AST, is_release: Callable[[Node], bool],
                   exits: Iterable[str] = ('exit_return', 'exit_raise', 'exit_cancel'),
                   handover: Callable[[Node], bool] = lambda n: False,
                   edge_ok: Optional[Callable[[Node, Node, str], bool]] = None,
                   ) -> list[tuple[str, str]]:
        """PAIR rule core: from the normal successors of the acquire statement,
        which exits are reachable without passing a release node? Returns
        [(exit kind, witness path)]. `handover(n)`: node that legitimately ends
        the obligation (e.g. `return resource`)."""
        c = self.cfg(fn)
        out = []
        if edge_ok is None:
            edge_ok = self.exc_model().edge_ok(fn)
        acq_nodes = [n for n in c.nodes_for(acquire) if n in c.reachable_nodes()]
        if not acq_nodes:
            raise AnalysisError(f'{fn.key}: acquire site not in CFG: {unparse(acquire)[:80]}')
        starts = []
        for a in acq_nodes:
            starts += [s for s, lab in a.succ if lab == 'next']
        stop = lambda n: is_release(n) or handover(n)
        starts = [s for s in starts if not stop(s)]
        for kind in exits:
            path = c.find_path(starts, lambda n, k=kind: n.kind == k, avoid=stop, edge_ok=edge_ok) if starts else None
            if path is None and any(s.kind == kind for s in starts):
                path = [(s, 'next') for s in starts if s.kind == kind][:1]
            if path is not None:
                out.append((kind, c.describe_path(path, fn.where)))
        return out

    def release_pred(self, fn: FuncInfo, pred: Callable[[ast.Call], bool], depth: int = 2) -> Callable[[Node], bool]:
        """Node-level release predicate: the node's own expressions contain a call
        satisfying pred, or a call to a repo function that (transitively, up to
        depth) does."""
        cache: dict[int, bool] = {}

        def node_ok(n: Node) -> bool:
            if n.ast is None or n.kind not in ('stmt', 'test', 'with_enter', 'loop'):
                return False
            if n.id in cache:
                return cache[n.id]
            ok = False
            exprs = cfgmod._own_exprs(n.ast) if n.kind != 'test' else [n.ast]
            for e in exprs:
                for call in (x for x in walk_with_lambdas(e) if isinstance(x, ast.Call)):
                    if pred(call):
                        ok = True
                        break
                    for t in self.res.callees(call, fn):
                        if self.res.may_reach_call(t, lambda c2, f2: pred(c2), depth - 1):
                            ok = True
                            break
                if ok:
                    break
            cache[n.id] = ok
            return ok
        return node_ok

    # ------------------------------------------------------ misc helpers
    def stores_to_attr(self, attr: str, funcs: Optional[Iterable[FuncInfo]] = None) -> list[tuple[FuncInfo, ast.AST, ast.AST]]:
        """(function, statement, value) for every `<x>.attr = value` / augmented /
        annotated store in the repo (or the given functions)."""
        out = []
        for fn in (funcs if funcs is not None else self.repo.all_funcs()):
            for n in walk_local(fn.node):
                tgts: list[ast.AST] = []
                val: Optional[ast.AST] = None
                if isinstance(n, ast.Assign):
                    for t in n.targets:
                        tgts += list(t.elts) if isinstance(t, (ast.Tuple, ast.List)) else [t]
                    val = n.value
                elif isinstance(n, (ast.AugAssign, ast.AnnAssign)):
                    tgts, val = [n.target], n.value
                elif isinstance(n, (ast.With, ast.AsyncWith)):
                    tgts = [i.optional_vars for i in n.items if i.optional_vars is not None]
                for t in tgts:
                    if isinstance(t, ast.Attribute) and t.attr == attr:
                        out.append((fn, n, val))
        return out

    def mutations_of_attr(self, attr: str, methods: Iterable[str], funcs: Optional[Iterable[FuncInfo]] = None
                          ) -> list[tuple[FuncInfo, ast.Call]]:
        """calls `<x>.attr.<method>(...)` for the given mutator method names."""
        out = []
        ms = set(methods)
        for fn in (funcs if funcs is not None else self.repo.all_funcs()):
            for c in calls_in(fn.node):
                if isinstance(c.func, ast.Attribute) and c.func.attr in ms:
                    r = c.func.value
                    if isinstance(r, ast.Attribute) and r.attr == attr:
                        out.append((fn, c))
        return out


def split_conj(e: ast.AST, pol: bool) -> list[tuple[ast.AST, bool]]:
    """Split a branch condition into atoms that are known to hold: `a and b`
    taken true gives a, b; `a or b` taken false gives not a, not b; `not x`
    flips. Anything else stays one atom."""
    if isinstance(e, ast.UnaryOp) and isinstance(e.op, ast.Not):
        return split_conj(e.operand, not pol)
    if isinstance(e, ast.BoolOp):
        if (isinstance(e.op, ast.And) and pol) or (isinstance(e.op, ast.Or) and not pol):
            out = []
            for v in e.values:
                out += split_conj(v, pol)
            return out
    if isinstance(e, ast.Compare) and len(e.ops) == 1:
        op = e.ops[0]
        flip = {ast.NotEq: ast.Eq, ast.IsNot: ast.Is, ast.NotIn: ast.In}
        for neg, posi in flip.items():
            if isinstance(op, neg):
                ne = ast.Compare(left=e.left, ops=[posi()], comparators=e.comparators)
                ast.copy_location(ne, e)
                return [(ne, not pol)]
    return [(e, pol)]


def cmp_atom(e: ast.AST) -> Optional[tuple[str, ast.AST, ast.AST]]:
    """('eq'|'is'|'in'|'lt'|'le'|'gt'|'ge', left, right) for a simple comparison."""
    if isinstance(e, ast.Compare) and len(e.ops) == 1:
        nm = {ast.Eq: 'eq', ast.Is: 'is', ast.In: 'in', ast.Lt: 'lt', ast.LtE: 'le', ast.Gt: 'gt', ast.GtE: 'ge'}
        for k, v in nm.items():
            if isinstance(e.ops[0], k):
                return v, e.left, e.comparators[0]
    return None


def is_none_const(e: ast.AST) -> bool:
    return isinstance(e, ast.Constant) and e.value is None


# --------------------------------------------------------------------------
# Exception model: which exceptional CFG edges are considered feasible.
#   * every suspension node (await / async with / async for) may raise any
#     Exception and may be cancelled;
#   * `raise` statements raise;
#   * a synchronous call raises iff it resolves to a repo function from which
#     an exception can escape (fixpoint over the call graph), or it is one of
#     the named raising primitives;
#   * other synchronous library calls are assumed not to raise (stated in
#     DESIGN.md section 9).
RAISING_PRIMITIVES = {'unpack', 'unpack_from', 'decode', 'decompress', 'inet_aton', 'inet_ntoa', 'result',
                      'listdir', 'getsize', 'getmtime', 'makedirs',
                      'deserialize', 'deserialize_request', 'deserialize_response', 'set_result', 'set_exception'}
NON_RAISING_WRAPPERS = {'create_task', 'ensure_future', 'partial'}


def _inside_nonraising_wrapper(call: ast.AST, root: ast.AST) -> bool:
    """Is `call` (a node inside the expression/statement `root`) an argument of
    create_task / partial / gather(return_exceptions=True) or inside a lambda?"""
    if call is root:
        return False
    cur = parent(call)
    while cur is not None:
        if isinstance(cur, ast.Call):
            nm = call_name(cur)
            if nm in NON_RAISING_WRAPPERS:
                return True
            if nm == 'gather' and any(k.arg == 'return_exceptions' and isinstance(k.value, ast.Constant)
                                      and k.value.value is True for k in cur.keywords):
                return True
        if isinstance(cur, ast.Lambda):
            return True
        if cur is root or isinstance(cur, ast.stmt):
            break
        cur = parent(cur)
    return False


class ExcModel:
    def __init__(self, eng: 'Engine'):
        self.eng = eng
        self._fn_raises: dict[FuncInfo, bool] = {}
        self._node_cache: dict[tuple[int, int], bool] = {}
        self._solve()

    def _own_calls(self, n: Node) -> list[ast.Call]:
        if n.ast is None or n.kind in ('assume', 'handler', 'noraise', 'with_exit', 'join'):
            return []
        exprs = [n.ast] if n.kind == 'test' else cfgmod._own_exprs(n.ast)
        out = []
        for e in exprs:
            for x in walk_with_lambdas(e):
                if isinstance(x, ast.Call) and not _inside_nonraising_wrapper(x, n.ast):
                    out.append(x)
        return out

    def node_raises(self, fn: FuncInfo, n: Node) -> bool:
        if n.kind == 'with_exit':
            return isinstance(n.ast, ast.AsyncWith) or any(
                call_name(i.context_expr) in ('atimeout', 'timeout') for i in n.ast.items)
        if n.suspends:
            # awaiting a gather(..., return_exceptions=True) or a sleep raises nothing (cancellation aside)
            aw = [x for x in walk_local(n.ast) if isinstance(x, ast.Await)] if n.ast is not None else []
            if aw and all(isinstance(a.value, ast.Call) and (
                    call_name(a.value) == 'sleep' or (call_name(a.value) == 'gather' and any(
                        k.arg == 'return_exceptions' and isinstance(k.value, ast.Constant) and k.value.value is True
                        for k in a.value.keywords))) for a in aw):
                pass
            else:
                # an awaited repo coroutine raises iff an exception can escape from it
                sure = True
                for a in aw:
                    v = a.value
                    if isinstance(v, ast.Call):
                        cs = self.eng.res.callees(v, fn)
                        if cs and not any(self._fn_raises.get(c, False) for c in cs) and \
                                call_name(v) not in RAISING_PRIMITIVES:
                            continue
                    sure = False
                if not aw or not sure:
                    return True
        if isinstance(n.ast, (ast.Raise, ast.Assert)):
            return True
        for c in self._own_calls(n):
            nm = call_name(c)
            cs = self.eng.res.callees(c, fn)
            if any(self._fn_raises.get(t, False) for t in cs if not t.is_async or True):
                # calling (not awaiting) an async function only creates the coroutine
                if all(t.is_async for t in cs) and not _is_awaited(c):
                    continue
                return True
            if not cs and nm in RAISING_PRIMITIVES:
                return True
        return False

    def edge_ok(self, fn: FuncInfo) -> Callable[[Node, Node, str], bool]:
        def ok(a: Node, b: Node, lab: str) -> bool:
            if lab != 'exc':
                return True
            k = (id(fn), a.id)
            if k not in self._node_cache:
                self._node_cache[k] = self.node_raises(fn, a)
            return self._node_cache[k]
        return ok

    def _solve(self):
        funcs = self.eng.repo.all_funcs()
        for f in funcs:
            self._fn_raises[f] = False
        changed = True
        rounds = 0
        while changed and rounds < 12:
            changed = False
            rounds += 1
            self._node_cache.clear()
            for f in funcs:
                if self._fn_raises[f]:
                    continue
                c = self.eng.cfg(f)
                if c.exit_raise in c.reach_from([c.entry], edge_ok=self.edge_ok(f)):
                    self._fn_raises[f] = True
                    changed = True
        self._node_cache.clear()

    def raises(self, fn: FuncInfo) -> bool:
        return self._fn_raises.get(fn, False)


def _is_awaited(call: ast.Call) -> bool:
    p = parent(call)
    return isinstance(p, ast.Await)


def _exc_model(self) -> ExcModel:
    m = getattr(self, '_exc_model_obj', None)
    if m is None:
        m = self._exc_model_obj = ExcModel(self)
    return m


Engine.exc_model = _exc_model  # type: ignore[attr-defined]


class ReleaseSummaries:
    """Interprocedural must-release summaries for one release method (e.g.
    `disconnect`): does a method of the resource guarantee that, whenever it is
    left by an exception / by cancellation, the resource has been released?
    Used to drop exceptional edges of `await res.m()` in PAIR rules."""

    def __init__(self, eng: Engine, release_method: str):
        self.eng = eng
        self.method = release_method
        self.memo: dict[tuple[FuncInfo, str], bool] = {}

    def _awaited_calls_on(self, n: Node, recv: set[str]) -> list[ast.Call]:
        out = []
        if n.ast is None or n.kind not in ('stmt', 'test'):
            return out
        for x in walk_local(n.ast):
            if isinstance(x, ast.Await) and isinstance(x.value, ast.Call) and isinstance(x.value.func, ast.Attribute):
                r = x.value.func.value
                rs = unparse(r)
                if rs in recv or (isinstance(r, ast.Call) and call_name(r) == 'super' and 'self' in recv):
                    out.append(x.value)
        return out

    def is_release_node(self, n: Node, recv: set[str]) -> bool:
        if n.ast is None or n.kind not in ('stmt', 'test'):
            return False
        exprs = [n.ast] if n.kind == 'test' else cfgmod._own_exprs(n.ast)
        for e in exprs:
            for c in walk_with_lambdas(e):
                if isinstance(c, ast.Call) and call_name(c) == self.method and isinstance(c.func, ast.Attribute) \
                        and unparse(c.func.value) in recv:
                    return True
        return False

    def edge_filter(self, fn: FuncInfo, recv: set[str]) -> Callable[[Node, Node, str], bool]:
        base = self.eng.exc_model().edge_ok(fn)

        def ok(a: Node, b: Node, lab: str) -> bool:
            if not base(a, b, lab):
                return False
            if lab in ('exc', 'cancel'):
                calls = self._awaited_calls_on(a, recv)
                if calls and a.suspends:
                    aw = [x for x in walk_local(a.ast) if isinstance(x, ast.Await)]
                    if len(aw) == len(calls):
                        kind = 'exit_raise' if lab == 'exc' else 'exit_cancel'
                        if all(self._all_guarantee(c, fn, kind) for c in calls):
                            return False
            return True
        return ok

    def _all_guarantee(self, call: ast.Call, fn: FuncInfo, kind: str) -> bool:
        cs = self.eng.res.callees(call, fn)
        return bool(cs) and all(self.guarantees(c, kind) for c in cs)

    def guarantees(self, callee: FuncInfo, kind: str) -> bool:
        key = (callee, kind)
        if key in self.memo:
            return self.memo[key]
        self.memo[key] = False          # recursion: assume no guarantee
        c = self.eng.cfg(callee)
        recv = {'self'}
        ef = self.edge_filter(callee, recv)
        p = c.find_path([c.entry], lambda n: n.kind == kind, avoid=lambda n: self.is_release_node(n, recv), edge_ok=ef)
        self.memo[key] = p is None
        return self.memo[key]


# --------------------------------------------------------------------------
# Typed exception-escape analysis (syntax directed, interprocedural fixpoint).
# Result per function: set of exception class names that may leave it; '*'
# stands for "an Exception of unknown class" (raised by an awaited library
# call or a named raising primitive).  CancelledError is not tracked here.
class EscapeAnalysis:
    faults_only = False      # FaultEscape: count only exceptions raised while handling another one (conversion of an I/O failure)

    def __init__(self, eng: Engine):
        self.eng = eng
        self._env: dict[str, object] = {}
        self._handler_depth = 0
        self._spec_cache: dict = {}
        self.esc: dict[FuncInfo, frozenset[str]] = {f: frozenset() for f in eng.repo.all_funcs()}
        changed = True
        rounds = 0
        while changed and rounds < 15:
            changed = False
            rounds += 1
            self._spec_cache.clear()       # specialised summaries depend on the general ones of this round
            for f in eng.repo.all_funcs():
                new = frozenset(self._block(f, f.node.body)) - {'<cancel>'}
                if new != self.esc[f]:
                    self.esc[f] = new
                    changed = True
        self._spec_cache.clear()

    def of(self, fn: FuncInfo) -> frozenset[str]:
        return self.esc.get(fn, frozenset())

    def of_call(self, call: ast.Call, callee: FuncInfo) -> frozenset[str]:
        """Escape set of `callee` for this call site: parameters that receive a literal (or keep a literal default) decide the
        `if <param>:` / `if not <param>:` tests of the callee (one level; nested calls use the general summaries)."""
        a = callee.node.args
        params = [x.arg for x in a.posonlyargs + a.args]
        if params and params[0] in ('self', 'cls') and callee.cls is not None:
            params = params[1:]
        env: dict[str, object] = {}
        defaults = dict(zip([x.arg for x in (a.posonlyargs + a.args)][len(a.posonlyargs + a.args) - len(a.defaults):], a.defaults))
        defaults.update({x.arg: d for x, d in zip(a.kwonlyargs, a.kw_defaults) if d is not None})
        given: dict[str, ast.AST] = {}
        for p_, v in zip(params, call.args):
            given[p_] = v
        for k in call.keywords:
            if k.arg:
                given[k.arg] = k.value
        if any(isinstance(x, ast.Starred) for x in call.args) or any(k.arg is None for k in call.keywords):
            return self.of(callee)
        for p_ in params + [x.arg for x in a.kwonlyargs]:
            v = given.get(p_, defaults.get(p_))
            if isinstance(v, ast.Constant) and isinstance(v.value, (bool, type(None))):
                env[p_] = v.value
        if not env:
            return self.of(callee)
        stores = {n.id for n in ast.walk(callee.node) if isinstance(n, ast.Name) and isinstance(n.ctx, ast.Store)}
        env = {k: v for k, v in env.items() if k not in stores}
        key = (callee, tuple(sorted((k, repr(v)) for k, v in env.items())))
        if key not in self._spec_cache:
            saved = self._env
            self._env = env
            try:
                self._spec_cache[key] = frozenset(self._block(callee, callee.node.body)) - {'<cancel>'}
            finally:
                self._env = saved
        return self._spec_cache[key]

    def _decide(self, test: ast.AST):
        """True / False if the test is decided by the constant-argument environment, else None."""
        if isinstance(test, ast.Name) and test.id in self._env:
            return bool(self._env[test.id])
        if isinstance(test, ast.UnaryOp) and isinstance(test.op, ast.Not):
            d = self._decide(test.operand)
            return None if d is None else not d
        if isinstance(test, ast.BoolOp):
            ds = [self._decide(v) for v in test.values]
            if isinstance(test.op, ast.And):
                return False if any(d is False for d in ds) else True if all(d is True for d in ds) else None
            return True if any(d is True for d in ds) else False if all(d is False for d in ds) else None
        if isinstance(test, ast.Compare) and len(test.ops) == 1 and isinstance(test.left, ast.Name) and test.left.id in self._env and \
                isinstance(test.comparators[0], ast.Constant) and isinstance(test.ops[0], (ast.Is, ast.IsNot, ast.Eq, ast.NotEq)):
            same = self._env[test.left.id] is test.comparators[0].value or self._env[test.left.id] == test.comparators[0].value
            return same if isinstance(test.ops[0], (ast.Is, ast.Eq)) else not same
        return None

    # ---- expressions
    def expr(self, fn: FuncInfo, e: Optional[ast.AST]) -> set[str]:
        out: set[str] = set()
        if e is None:
            return out
        for x in walk_with_lambdas(e):
            if isinstance(x, ast.Await):
                v = x.value
                if not isinstance(v, ast.Call):
                    out.add('*')          # awaiting a future / task: whatever it was completed with
                    continue
                nm = call_name(v)
                if nm in ('sleep',):
                    continue
                if nm == 'gather' and any(k.arg == 'return_exceptions' and const_true(k.value) for k in v.keywords):
                    continue
                cs = self.eng.res.callees(v, fn)
                if not cs:
                    if nm in ('gather', 'wait', 'wait_for'):
                        continue          # their arguments are examined as ordinary calls below
                    out.add('*')
            elif isinstance(x, ast.Call):
                if _inside_nonraising_wrapper(x, e):
                    continue
                nm = call_name(x)
                cs = self.eng.res.callees(x, fn)
                if cs:
                    asyncs = [c for c in cs if c.is_async]
                    awaited = isinstance(parent(x), ast.Await) or _feeds_gather(x)
                    for c in cs:
                        if c.is_async and not awaited:
                            continue
                        out |= self.of_call(x, c) if hasattr(self, 'esc') and c in self.esc else self.esc.get(c, frozenset())
                elif nm in RAISING_PRIMITIVES:
                    out.add('*')
        return out

    # ---- statements
    def _block(self, fn: FuncInfo, stmts: list[ast.stmt], caught: frozenset[str] = frozenset()) -> set[str]:
        out: set[str] = set()
        for st in stmts:
            out |= self._stmt(fn, st, caught)
        return out

    def _stmt(self, fn: FuncInfo, st: ast.stmt, caught: frozenset[str]) -> set[str]:
        if isinstance(st, FUNC_NODES) or isinstance(st, ast.ClassDef):
            return set()
        if isinstance(st, ast.Raise):
            if self.faults_only and not self._handler_depth:
                return self.expr(fn, st.exc)       # a raise outside any handler is a usage error / own decision, not an I/O fault
            if st.exc is None:
                return set(caught) if caught else {'*'}
            e = st.exc.func if isinstance(st.exc, ast.Call) else st.exc
            ch = attr_chain(e)
            name = ch[-1] if ch else None
            out = self.expr(fn, st.exc)
            if name == 'CancelledError':
                return out
            if name and (name in cfgmod.EXC_PARENTS or name[:1].isupper()):
                out.add(name)
            else:
                out.add('*')
            return out
        if isinstance(st, ast.Try):
            body = self._block(fn, st.body, caught)
            remaining: set[str] = set()
            handler_out: set[str] = set()
            for t in body:
                must = False
                for h in st.handlers:
                    m = cfgmod.handler_catches(h, 'exc', None if t == '*' else t)
                    if t == '*' and m == 'may':
                        m = 'no' if True else m      # an unknown Exception is only surely caught by a catch-all
                    if m == 'must':
                        must = True
                        break
                if not must:
                    remaining.add(t)
            for h in st.handlers:
                names = cfgmod.handler_type_names(h)
                hc: set[str] = set()
                for t in body:
                    m = cfgmod.handler_catches(h, 'exc', None if t == '*' else t)
                    if m in ('must', 'may'):
                        hc.add(t)
                if not names or any(n in ('CancelledError', 'BaseException') for n in names):
                    hc.add('<cancel>')      # a bare `raise` here may just pass the cancellation on
                self._handler_depth += 1
                try:
                    handler_out |= self._block(fn, h.body, frozenset(hc))
                finally:
                    self._handler_depth -= 1
            out = remaining | handler_out | self._block(fn, st.orelse, caught) | self._block(fn, st.finalbody, caught)
            return out
        if isinstance(st, (ast.With, ast.AsyncWith)):
            out = set()
            for i in st.items:
                out |= self.expr(fn, i.context_expr)
                if isinstance(i.context_expr, ast.Call) and call_name(i.context_expr) in ('atimeout', 'timeout'):
                    out.add('TimeoutError')
                elif isinstance(st, ast.AsyncWith) and not self.eng.res.callees(i.context_expr, fn) if isinstance(i.context_expr, ast.Call) else False:
                    if 'lock' not in unparse(i.context_expr).lower():
                        out.add('*')
            return out | self._block(fn, st.body, caught)
        if isinstance(st, (ast.If, ast.While)):
            d = self._decide(st.test) if isinstance(st, ast.If) and self._env else None
            if d is True:
                return self._block(fn, st.body, caught)
            if d is False:
                return self._block(fn, st.orelse, caught)
            return self.expr(fn, st.test) | self._block(fn, st.body, caught) | self._block(fn, st.orelse, caught)
        if isinstance(st, (ast.For, ast.AsyncFor)):
            return self.expr(fn, st.iter) | self._block(fn, st.body, caught) | self._block(fn, st.orelse, caught)
        out = set()
        for c in ast.iter_child_nodes(st):
            if isinstance(c, ast.expr):
                out |= self.expr(fn, c)
        if isinstance(st, ast.Assert):
            out.add('AssertionError')
        return out


class FaultEscape(EscapeAnalysis):
    """Typed exceptions that an I/O failure can make leave a function: only `raise` statements executed while another exception is
    being handled count (the repo converts OSError / IncompleteReadError / timeouts into its NetworkError family inside handlers,
    and re-raises there); a `raise` guarded by `if not self._reader:` is a usage error of the caller, not a fault.  '*' (unknown
    library exceptions) is dropped by the users of this analysis."""
    faults_only = True


def const_true(e: ast.AST) -> bool:
    return isinstance(e, ast.Constant) and e.value is True


def _feeds_gather(call: ast.Call) -> bool:
    cur = parent(call)
    while cur is not None and not isinstance(cur, ast.stmt):
        if isinstance(cur, ast.Call) and call_name(cur) in ('gather', 'wait', 'wait_for'):
            return True
        cur = parent(cur)
    return False


def _faults(self) -> 'FaultEscape':
    m = getattr(self, '_fault_obj', None)
    if m is None:
        m = FaultEscape(self)
        self._fault_obj = m
    return m


def _escape(self) -> EscapeAnalysis:
    m = getattr(self, '_escape_obj', None)
    if m is None:
        m = self._escape_obj = EscapeAnalysis(self)
    return m


Engine.escape = _escape  # type: ignore[attr-defined]
Engine.faults = _faults  # type: ignore[attr-defined]
