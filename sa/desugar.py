"""Normalisation pass: `match` statements are rewritten into the if / elif chains they abbreviate.

The CFG, the guard extraction and every rule speak about `if` tests.  A `match` over values, classes, singletons, or-patterns and
fixed-length tuples of those (the forms a maintainer uses to replace an if/elif chain) has a direct translation:

    case V:            subject == V                 case C():          isinstance(subject, C)
    case A | B:        test(A) or test(B)           case None/True:    subject is None / True
    case (P, Q):       test(P on s[0]) and ...      case _:            else            case _ if g:   elif g
    case P as n / n:   n = subject (bound at the top of the branch)

Anything else (mapping patterns, star patterns, class patterns with sub-patterns) is left alone; rules then see a Match node and the
affected guard is simply not found -- which is reported as a violation of that rule, the conservative direction.
"""
from __future__ import annotations
import ast
import itertools
from typing import Optional

_n = itertools.count(1)


def _simple(e: ast.AST) -> bool:
    if isinstance(e, (ast.Name, ast.Constant)):
        return True
    if isinstance(e, ast.Attribute):
        return _simple(e.value)
    return False


def _test(pat: ast.pattern, subj: ast.expr, binds: list) -> Optional[ast.expr]:
    """Boolean expression equivalent to `pat` matching `subj`; None = always matches; raises ValueError if unsupported."""
    if isinstance(pat, ast.MatchValue):
        return ast.Compare(subj, [ast.Eq()], [pat.value])
    if isinstance(pat, ast.MatchSingleton):
        if isinstance(pat.value, bool) and isinstance(subj, ast.Compare):
            # a comparison evaluates to True or False: `case False` on it is its negation, `case True` the comparison itself
            if pat.value:
                return subj
            if len(subj.ops) == 1 and isinstance(subj.ops[0], (ast.In, ast.NotIn)):
                return ast.Compare(subj.left, [ast.NotIn() if isinstance(subj.ops[0], ast.In) else ast.In()], subj.comparators)
            return ast.UnaryOp(ast.Not(), subj)
        return ast.Compare(subj, [ast.Is()], [ast.Constant(pat.value)])
    if isinstance(pat, ast.MatchClass):
        if pat.patterns or pat.kwd_patterns:
            raise ValueError('class pattern with sub-patterns')
        return ast.Call(ast.Name('isinstance', ast.Load()), [subj, pat.cls], [])
    if isinstance(pat, ast.MatchOr):
        parts = [_test(p, subj, binds) for p in pat.patterns]
        if any(p is None for p in parts):
            return None
        if all(isinstance(p, ast.Compare) and isinstance(p.ops[0], ast.Eq) for p in parts):
            return ast.Compare(subj, [ast.In()], [ast.Tuple([p.comparators[0] for p in parts], ast.Load())])
        return ast.BoolOp(ast.Or(), parts)
    if isinstance(pat, ast.MatchAs):
        inner = _test(pat.pattern, subj, binds) if pat.pattern is not None else None
        if pat.name:
            binds.append((pat.name, subj))
        return inner
    if isinstance(pat, ast.MatchSequence) and not isinstance(subj, ast.Tuple):
        # `[a, *_, b, c]` on a value that is a list wherever the tree builds it: a length test plus index bindings.  Only captures and
        # wildcards as elements (`case [*_, d, _]`); the sequence-type test of the pattern is not expressed (a str subject would differ).
        stars = [i for i, p in enumerate(pat.patterns) if isinstance(p, ast.MatchStar)]
        if len(stars) > 1 or not all(isinstance(p, ast.MatchStar) or (isinstance(p, ast.MatchAs) and p.pattern is None) for p in pat.patterns):
            raise ValueError('sequence pattern with sub-patterns')
        k = len(pat.patterns) - len(stars)
        ln = ast.Call(ast.Name('len', ast.Load()), [subj], [])
        for i, p in enumerate(pat.patterns):
            if isinstance(p, ast.MatchStar):
                if p.name:
                    hi = len(pat.patterns) - 1 - i
                    binds.append((p.name, ast.Subscript(subj, ast.Slice(ast.Constant(i) if i else None, ast.UnaryOp(ast.USub(), ast.Constant(hi)) if hi else None, None), ast.Load())))
            elif p.name:
                idx = i if not stars or i < stars[0] else i - len(pat.patterns)
                binds.append((p.name, ast.Subscript(subj, ast.Constant(idx) if idx >= 0 else ast.UnaryOp(ast.USub(), ast.Constant(-idx)), ast.Load())))
        return ast.Compare(ln, [ast.GtE() if stars else ast.Eq()], [ast.Constant(k)])
    if isinstance(pat, ast.MatchSequence):
        if any(isinstance(p, ast.MatchStar) for p in pat.patterns):
            raise ValueError('star pattern')
        if not (isinstance(subj, ast.Tuple) and len(subj.elts) == len(pat.patterns)):
            raise ValueError('sequence pattern on a non-literal subject')
        parts = [t for t in (_test(p, s, binds) for p, s in zip(pat.patterns, subj.elts)) if t is not None]
        if not parts:
            return None
        return parts[0] if len(parts) == 1 else ast.BoolOp(ast.And(), parts)
    raise ValueError(type(pat).__name__)


class MatchDesugar(ast.NodeTransformer):
    def __init__(self):
        self.rewritten = 0
        self.skipped = 0

    def visit_Match(self, node: ast.Match):
        self.generic_visit(node)
        pre: list[ast.stmt] = []
        subj = node.subject
        # elements without calls / awaits / bindings are evaluated where the pattern tests them, each at most once per case here
        simple_tuple = isinstance(subj, ast.Tuple) and all(
            _simple(e) or not any(isinstance(x, (ast.Call, ast.Await, ast.NamedExpr, ast.Yield, ast.YieldFrom, ast.Lambda)) for x in ast.walk(e)) for e in subj.elts)
        if not (_simple(subj) or simple_tuple):
            tmp = f'__match{next(_n)}'
            pre.append(ast.copy_location(ast.Assign([ast.Name(tmp, ast.Store())], subj, lineno=node.lineno), node))
            subj = ast.Name(tmp, ast.Load())
        branches = []
        try:
            for case in node.cases:
                binds: list = []
                t = _test(case.pattern, subj, binds)
                if case.guard is not None and binds:
                    # `case P(x) if g(x): B` as the LAST case: nothing is tried after a failed guard, so it is
                    # `if P: x = ..; if g(x): B` (the capture is bound before the guard, as the language does)
                    if case is not node.cases[-1]:
                        raise ValueError('guard with captures, further cases follow')
                    bs = [ast.copy_location(ast.Assign([ast.Name(n_, ast.Store())], s_, lineno=case.body[0].lineno), case.body[0]) for n_, s_ in binds]
                    inner_if = ast.copy_location(ast.If(case.guard, case.body, []), case.body[0])
                    if t is None:
                        branches.append((None, bs + [inner_if]))
                    else:
                        branches.append((t, bs + [inner_if]))
                    continue
                if case.guard is not None:
                    t = case.guard if t is None else ast.BoolOp(ast.And(), [t, case.guard])
                body = [ast.copy_location(ast.Assign([ast.Name(n_, ast.Store())], s_, lineno=case.body[0].lineno), case.body[0]) for n_, s_ in binds] + case.body
                branches.append((t, body))
        except ValueError:
            self.skipped += 1
            return node
        # build the chain from the back
        orelse: list[ast.stmt] = []
        for t, body in reversed(branches):
            if t is None:
                orelse = body           # irrefutable: everything after it is dead
            else:
                orelse = [ast.copy_location(ast.If(t, body, orelse), body[0])]
        self.rewritten += 1
        out = pre + (orelse or [ast.copy_location(ast.Pass(), node)])
        return [ast.fix_missing_locations(ast.copy_location(s, node) if not hasattr(s, 'lineno') else s) for s in out]


# --------------------------------------------------------------------------- lazily filtered loops
FUNC = (ast.FunctionDef, ast.AsyncFunctionDef)


class _Rename(ast.NodeTransformer):
    def __init__(self, old: str, new: str):
        self.old, self.new = old, new

    def visit_Name(self, n: ast.Name):
        return ast.copy_location(ast.Name(self.new, n.ctx), n) if n.id == self.old else n


def _filter_loop(st: ast.For) -> bool:
    """`for T in (e for e in XS if C)`  ->  `for T in XS: if not C[T/e]: continue; ...`   (a generator is consumed lazily, one element per
    iteration: the two loops evaluate the same expressions in the same order).  Same for `filter(None, XS)`.  Eager forms (list
    comprehensions, sorted(), list()) are snapshots and are left alone."""
    it = st.iter
    if not isinstance(st.target, ast.Name):
        return False
    T = st.target.id
    cond = None
    if isinstance(it, ast.GeneratorExp) and len(it.generators) == 1 and not it.generators[0].is_async and isinstance(it.generators[0].target, ast.Name) \
            and isinstance(it.elt, ast.Name) and it.elt.id == it.generators[0].target.id and it.generators[0].ifs:
        g = it.generators[0]
        ifs = [_Rename(g.target.id, T).visit(i) for i in g.ifs]
        cond = ifs[0] if len(ifs) == 1 else ast.BoolOp(ast.And(), ifs)
        new_iter = g.iter
    elif isinstance(it, ast.Call) and isinstance(it.func, ast.Name) and it.func.id == 'filter' and len(it.args) == 2 and not it.keywords and \
            ((isinstance(it.args[0], ast.Constant) and it.args[0].value is None) or (isinstance(it.args[0], ast.Name) and it.args[0].id == 'bool')):
        cond = ast.Name(T, ast.Load())
        new_iter = it.args[1]
    if cond is None:
        return False
    neg = cond.operand if isinstance(cond, ast.UnaryOp) and isinstance(cond.op, ast.Not) else ast.UnaryOp(ast.Not(), cond)
    skip = ast.copy_location(ast.If(neg, [ast.copy_location(ast.Continue(), st)], []), st)
    st.iter = new_iter
    st.body = [skip] + st.body
    return True


def _terminates(stmts: list) -> bool:
    if not stmts:
        return False
    st = stmts[-1]
    if isinstance(st, (ast.Return, ast.Raise)):
        return True
    if isinstance(st, ast.If):
        return _terminates(st.body) and _terminates(st.orelse)
    return False


def _search_expr(prev: ast.stmt, st: ast.stmt, fn) -> list | None:
    """`V = next((E for x in XS if C), None)` directly followed by `if V is not None: <body that returns / raises>`
          ->  `for x in XS: if C: V = E; <body>` then `V = None`
    (the first hit runs the body and leaves the function; without a hit V is None, as before).  Only when x is used nowhere else in
    the function (the comprehension variable becomes a local of the function)."""
    tgt = prev.targets[0] if isinstance(prev, ast.Assign) and len(prev.targets) == 1 else prev.target if isinstance(prev, ast.AnnAssign) else None
    val = getattr(prev, 'value', None)
    if not (isinstance(tgt, ast.Name) and isinstance(val, ast.Call) and isinstance(val.func, ast.Name) and val.func.id == 'next' and len(val.args) == 2 and not val.keywords):
        return None
    gen, dflt = val.args
    if not (isinstance(dflt, ast.Constant) and dflt.value is None and isinstance(gen, ast.GeneratorExp) and len(gen.generators) == 1 and not gen.generators[0].is_async
            and isinstance(gen.generators[0].target, ast.Name)):
        return None
    V = tgt.id
    if not (isinstance(st, ast.If) and not st.orelse and isinstance(st.test, ast.Compare) and len(st.test.ops) == 1 and isinstance(st.test.ops[0], ast.IsNot) and
            isinstance(st.test.left, ast.Name) and st.test.left.id == V and isinstance(st.test.comparators[0], ast.Constant) and st.test.comparators[0].value is None and
            _terminates(st.body)):
        return None
    if any(isinstance(n, (ast.Break, ast.Continue)) for b in st.body for n in ast.walk(b)):
        return None
    g = gen.generators[0]
    x = g.target.id
    inside = {id(n) for n in ast.walk(gen)}
    if any(isinstance(n, ast.Name) and n.id == x and id(n) not in inside for n in ast.walk(fn)) or x == V:
        return None
    hit = [ast.copy_location(ast.Assign([ast.Name(V, ast.Store())], gen.elt, lineno=prev.lineno), prev)] + st.body
    inner: list = hit
    if g.ifs:
        cond = g.ifs[0] if len(g.ifs) == 1 else ast.BoolOp(ast.And(), list(g.ifs))
        inner = [ast.copy_location(ast.If(cond, hit, []), st)]
    loop = ast.copy_location(ast.For(g.target, g.iter, inner, [], lineno=prev.lineno), prev)
    after = ast.copy_location(ast.Assign([ast.Name(V, ast.Store())], ast.Constant(None), lineno=st.lineno), st)
    return [loop, after]


def _loops_in(fn) -> int:
    n = 0

    def loads(name):
        return sum(1 for x in ast.walk(fn) if isinstance(x, ast.Name) and x.id == name and isinstance(x.ctx, ast.Load))

    def stores(name):
        return sum(1 for x in ast.walk(fn) if isinstance(x, ast.Name) and x.id == name and isinstance(x.ctx, (ast.Store, ast.Del)))

    def block(stmts: list):
        nonlocal n
        i = 0
        while i < len(stmts):
            st = stmts[i]
            if isinstance(st, FUNC + (ast.ClassDef,)):
                i += 1
                continue
            if i > 0:
                r = _search_expr(stmts[i - 1], st, fn)
                if r is not None:
                    stmts[i - 1:i + 1] = r
                    n += 1
                    i -= 1
                    st = stmts[i]
            if isinstance(st, ast.For):
                # `G = (<generator>)` directly before `for x in G:` and G used nowhere else: the loop iterates the generator expression
                if isinstance(st.iter, ast.Name) and i > 0:
                    prev = stmts[i - 1]
                    tgt = prev.targets[0] if isinstance(prev, ast.Assign) and len(prev.targets) == 1 else prev.target if isinstance(prev, ast.AnnAssign) else None
                    val = getattr(prev, 'value', None)
                    if isinstance(tgt, ast.Name) and tgt.id == st.iter.id and isinstance(val, (ast.GeneratorExp, ast.Call)) and loads(tgt.id) == 1 and stores(tgt.id) == 1:
                        probe = ast.For(st.target, val, [ast.Pass()], [])
                        if _filter_loop(ast.copy_location(probe, st)):
                            st.iter = val
                            del stmts[i - 1]
                            i -= 1
                if _filter_loop(st):
                    n += 1
            for fld in ('body', 'orelse', 'finalbody'):
                sub = getattr(st, fld, None)
                if isinstance(sub, list) and sub and isinstance(sub[0], ast.stmt):
                    block(sub)
            for h in getattr(st, 'handlers', []) or []:
                block(h.body)
            for c in getattr(st, 'cases', []) or []:
                block(c.body)
            i += 1
    block(fn.body)
    return n


def desugar(tree: ast.Module) -> tuple[int, int]:
    d = MatchDesugar()
    d.visit(tree)
    loops = 0
    for fn in [x for x in ast.walk(tree) if isinstance(x, FUNC)]:
        loops += _loops_in(fn)
    ast.fix_missing_locations(tree)
    return d.rewritten + loops, d.skipped
