#!/venv/bin/python
"""Re-pin tables/room_effects.json from the CURRENT /repo tree (run only after reviewing the diff: the table is the oracle of C19)."""
import json, os, sys
V = os.path.dirname(os.path.dirname(os.path.abspath(__file__)))
sys.path.insert(0, V)
from sa.engine import Engine
from rules import c19
got = c19.extract(Engine(sys.argv[1] if len(sys.argv) > 1 else '/repo'))
p = os.path.join(V, 'tables', 'room_effects.json')
t = json.load(open(p))
for k, v in got.items():
    for e in v['effects']:
        e.pop('each', None)
t['handlers'] = {k: got[k] for k in sorted(got)}
json.dump(t, open(p + '.new', 'w'), indent=1, sort_keys=True)
print('written', p + '.new', len(got), 'handlers')
