#!/venv/bin/python
"""Print markdown tables for DESIGN.md from the committed artefacts
(seeded/*/meta.json, known_findings.json, evidence/*.json)."""
import glob
import json
import os

V = os.path.dirname(os.path.dirname(os.path.abspath(__file__)))


def seeds():
    print('| seed | property | what it needs to manifest | files | caught by (new violation keys of the property\'s check) | first contact |')
    print('|---|---|---|---|---|---|')
    for p in sorted(glob.glob(os.path.join(V, 'seeded', '*', 'meta.json'))):
        m = json.load(open(p))
        rules = sorted({k.split('|')[0] + ' @ ' + k.split('|')[1].split(':')[-1] for k in (m.get('detected_by') or [])})
        files = ', '.join(f.replace('src/aioslsk/', '') for f in m['files_changed'])
        first = m.get('initially', 'round 1: see section 12.3')
        print(f"| `{m['name']}` | {m['property']} | {m['needs_to_manifest']} | {files} | {'; '.join(rules) or 'NOT DETECTED'} | {first} |")


def findings():
    k = json.load(open(os.path.join(V, 'known_findings.json')))
    print('| id | property | key | what fails | why recorded, not repaired |')
    print('|---|---|---|---|---|')
    for o in k['open']:
        print(f"| {o['id']} | {o['property']} | `{o['key']}` | {o['failing_input']} | {o['why_not_fixed']} |")
    print()
    print('| commit | property | defect repaired |')
    print('|---|---|---|')
    for f in k['fixed']:
        print(f"| {f['commit']} | {f['property']} | {f['what']} |")


def coverage():
    print('| property | rules | obligations | functions analysed | quick wall s | self-test variants (break detected / keep silent) |')
    print('|---|---|---|---|---|---|')
    for i in range(1, 21):
        p = os.path.join(V, 'evidence', f'C{i:02d}.json')
        e = json.load(open(p))
        c = e['coverage']
        st = c.get('selftest')
        s = f"{st['break_detected']}/{st['break_total']} / {st['keep_silent']}/{st['keep_total']}" if st else '-'
        print(f"| C{i:02d} | {len(c['rules'])} | {c['obligations']} | {c['functions_analysed']} | {e['wall_s']} | {s} |")


if __name__ == '__main__':
    import sys
    {'seeds': seeds, 'findings': findings, 'coverage': coverage}[sys.argv[1]]()
