#!/venv/bin/python
"""Cross-read of the pinned wire table (tables/wire_layout.json) against the hand-written protocol description that ships with the
repository (docs/source/deprecated/MESSAGES.rst): message codes and the flat sequence of field types of every Send / Receive list.

The document is the only second source for the layout inside the sandbox.  It is hand-written and known to be imprecise (it says so:
"deprecated"), so disagreements are not violations: each one is triaged once in tables/doc_xread_triage.json (doc error / doc
simplification / unexplained).  What the cross-read adds: a change of the pinned table (re-pinned after a code change) that moves it
AWAY from the document shows up as a new, untriaged disagreement.

usage: doc_xread.py [--repo /repo] [-v]      exit 0 = every disagreement is triaged, 1 = new disagreement(s)
"""
import json, os, re, sys

HERE = os.path.dirname(os.path.dirname(os.path.abspath(__file__)))


def crossread(repo: str):
    """-> (number of documented messages, layouts compared, [(key, kind, text)])"""
    doc = open(os.path.join(repo, 'docs/source/deprecated/MESSAGES.rst')).read().split('\n')
    table = json.load(open(os.path.join(HERE, 'tables/wire_layout.json')))

    # ---- parse the document
    FAMILY = {'Server Messages': 'server', 'Peer Initialization Messages': 'peer_init', 'Peer Messages': 'peer', 'Distributed Messages': 'distributed', 'File Messages': 'file'}
    records = {}
    msgs = {}
    family = None
    i = 0
    cur = None
    section = None
    while i < len(doc):
        l = doc[i]
        nxt = doc[i + 1] if i + 1 < len(doc) else ''
        if l.strip() in FAMILY and set(nxt.strip()) == {'='}:
            family = FAMILY[l.strip()]
        m = re.match(r'^([A-Za-z0-9]+) \(Code (\d+)\)$', l.strip())
        if m and set(nxt.strip()) == {'-'}:
            cur = {'name': m.group(1), 'family': family, 'code': int(m.group(2)), 'Send': None, 'Receive': None, 'code_field': None}
            msgs[(family, m.group(1))] = cur
            section = None
        elif family is None and re.match(r'^[A-Za-z]+$', l.strip()) and set(nxt.strip()) == {'-'} and l.strip() not in ('String', 'Array', 'Bytearr'):
            cur = {'name': l.strip(), 'record': True, 'Send': []}
            records[l.strip()] = cur
            section = 'Send'
        elif cur is not None:
            mc = re.match(r'^:Code: (\d+)', l.strip())
            if mc:
                cur['code_field'] = int(mc.group(1))
            ms = re.match(r'^:(Send/Receive|Send|Receive):', l.strip())
            if ms and ms.group(1) == 'Send/Receive':
                # peer / distributed messages travel both ways with one layout: it is the Request layout of the table
                section = 'Send'
                cur['Send'] = []
            elif ms:
                section = ms.group(1)
                cur[section] = []
            elif l.startswith(':') or l.startswith('.. '):
                if not cur.get('record'):
                    section = None
            elif section and cur.get(section) is not None:
                mt = re.match(r'^\s*\d+\. (?:\*\*([a-z0-9]+)\*\*|:ref:`([A-Za-z]+)`)', l)
                if mt:
                    cur[section].append(mt.group(1) or mt.group(2))
        i += 1

    # ---- normalise and compare
    NORM = {'ip': 'ipaddr', 'uchar': 'uint8', 'bool': 'boolean', 'bytearr': 'bytearr', 'int32': 'int32'}
    FAM_T = {'server': 'server', 'peer_init': 'peer_init', 'peer': 'peer', 'distributed': 'distributed'}


    WIDTH = {'ipaddr': 'u32', 'uint32': 'u32', 'boolean': 'u8', 'uint8': 'u8', 'uchar': 'u8', 'ip': 'u32'}      # same bytes on the wire, different reading
    DOC_RECORDS = {n: r['Send'] for n, r in records.items()}


    def flat_table(fields, depth=0):
        out = []
        for f in fields:
            t = f['type'] if f['type'] != 'array' else (f.get('subtype') or '?')
            if t in table['records'] and depth < 3:
                out += flat_table(table['records'][t], depth + 1)
            else:
                out.append(WIDTH.get(t, t))
        return out


    def flat_doc(seq, depth=0):
        out = []
        for x in seq:
            if x in DOC_RECORDS and depth < 3:
                out += flat_doc(DOC_RECORDS[x], depth + 1)
            else:
                out.append(WIDTH.get(NORM.get(x, x), NORM.get(x, x)))
        return out


    dis = []
    seen = 0
    tm = table['messages']
    fams = sorted({v['family'] for v in tm.values()})
    for (fam, name), d in sorted(msgs.items(), key=lambda kv: (str(kv[0][0]), kv[0][1])):
        for kind, sec in (('Request', 'Send'), ('Response', 'Receive')):
            key = f'{name}.{kind}'
            t = tm.get(key)
            if t is None:
                if d[sec]:
                    dis.append((key, 'missing-in-table', f'document lists a {sec} part, the table has no {key}'))
                continue
            seen += 1
            if d['code'] != t['id']:
                dis.append((key, 'code', f'document heading says code {d["code"]}, table {t["id"]}'))
            if d['code_field'] is not None and d['code_field'] != t['id']:
                dis.append((key, 'code-field', f'document :Code: says {d["code_field"]}, table {t["id"]}'))
            if d[sec] is not None:
                a, b = flat_doc(d[sec]), flat_table(t['fields'])
                if a != b:
                    dis.append((key, 'types', f'document {a} table {b}'))
            elif t['fields']:
                dis.append((key, 'missing-in-doc', f'table has {len(t["fields"])} fields, the document lists no {sec} part'))
    for key in sorted(tm):
        nm = key.split('.')[0]
        if not any(n == nm for (_, n) in msgs):
            dis.append((key, 'undocumented', 'message is not described in the document'))

    return len(msgs), seen, dis


def load_triage() -> dict:
    tp = os.path.join(HERE, 'tables/doc_xread_triage.json')
    return json.load(open(tp)).get('entries', {}) if os.path.exists(tp) else {}


def main():
    args = sys.argv[1:]
    repo = args[args.index('--repo') + 1] if '--repo' in args else os.environ.get('AIOSLSK_REPO', '/repo')
    n_msgs, seen, dis = crossread(repo)
    triage = load_triage()
    new = [(k, kind, txt) for k, kind, txt in dis if f'{k}|{kind}' not in triage]
    print(f'document: {n_msgs} messages; compared {seen} request/response layouts with the table; '
          f'{len(dis)} disagreements, {len(dis) - len(new)} triaged, {len(new)} new')
    if '-v' in args or new:
        for k, kind, txt in (dis if '-v' in args else new):
            print(f'  {"" if f"{k}|{kind}" in triage else "NEW "}{k} [{kind}]: {txt}')
    if '--dump' in args:
        json.dump({'entries': {f'{k}|{kind}': {'what': txt, 'verdict': ''} for k, kind, txt in dis}}, open(args[args.index('--dump') + 1], 'w'), indent=1)
    sys.exit(1 if new else 0)


if __name__ == '__main__':
    main()
