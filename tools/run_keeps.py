#!/venv/bin/python
"""Run every check against every refactoring control (behaviour-preserving patch): any VIOLATION / ANALYSIS-ERROR is a false alarm.
usage: run_keeps.py [--src /tmp/wt] [--only C07]   (default: the committed /verif/controls/*.patch)"""
import glob
import json
import os
import shutil
import subprocess
import sys
import tempfile
from concurrent.futures import ThreadPoolExecutor

V = os.path.dirname(os.path.dirname(os.path.abspath(__file__)))
args = sys.argv[1:]
only = args[args.index('--only') + 1] if '--only' in args else None
if '--src' in args:
    src = args[args.index('--src') + 1]
    patches = sorted(glob.glob(os.path.join(src, 'K-C*', 'keep*.patch')))
    label = lambda p: os.path.basename(os.path.dirname(p)).replace('K-', '') + '-' + os.path.basename(p)[:-6]
else:
    patches = sorted(glob.glob(os.path.join(V, 'controls', '*.patch')))
    label = lambda p: os.path.basename(p)[:-6]
if only:
    patches = [p for p in patches if any(o in label(p) for o in only.split(','))]
import json
UNDECIDED = json.load(open(os.path.join(V, 'controls', 'UNDECIDED.json'))) if os.path.exists(os.path.join(V, 'controls', 'UNDECIDED.json')) else {}
PIDS = [f'C{i:02d}' for i in range(1, 21)]
if '--pids' in args:       # --pids C03,C17  |  --pids own (the property the control was written for)
    PIDS = args[args.index('--pids') + 1].split(',')


def run(p):
    d = tempfile.mkdtemp(prefix='keep-', dir=os.environ.get('TMPDIR', '/tmp'))
    try:
        root = os.path.join(d, 'r')
        shutil.copytree('/repo', root, ignore=shutil.ignore_patterns('.git', '__pycache__', '*.pyc', '.pytest_cache'))
        r = subprocess.run(['git', 'apply', '--unsafe-paths', '--directory', root, p], capture_output=True, text=True, cwd=d)
        if r.returncode != 0:
            r = subprocess.run(['patch', '-p1', '-s', '-i', p], capture_output=True, text=True, cwd=root)
            if r.returncode != 0:
                return label(p), {'apply': 'FAILED ' + (r.stderr or r.stdout)[:200]}
        out = {}
        env = dict(os.environ, VERIF_EVIDENCE_DIR=os.path.join(d, 'ev'))
        for pid in ([label(p)[:3]] if PIDS == ['own'] else PIDS):
            c = subprocess.run([os.path.join(V, 'check'), pid, '--repo', root, '--tier', 'quick'], capture_output=True, text=True, env=env)
            if c.returncode == 2 and pid in UNDECIDED.get(label(p), {}).get('checks', []) and 'VIOLATION' not in c.stdout:
                continue        # documented: this check does not decide this control (controls/UNDECIDED.json)
            if c.returncode != 0:
                lines = [l.strip() for l in c.stdout.splitlines() if 'violated: rule' in l or 'ANALYSIS-ERROR' in l or l.strip().startswith('reason:') or l.strip().startswith('obligation:')]
                out[pid] = {'exit': c.returncode, 'lines': lines[:9]}
        return label(p), out
    finally:
        shutil.rmtree(d, ignore_errors=True)


with ThreadPoolExecutor(14) as ex:
    res = list(ex.map(run, patches))
bad = 0
for name, out in res:
    if out:
        bad += 1
        print(f'== {name}: FALSE ALARM in {sorted(out)}')
        for pid, o in out.items():
            if pid == 'apply':
                print('   ', o)
                continue
            for l in o['lines']:
                print(f'    [{pid} exit {o["exit"]}] {l[:260]}')
    else:
        print(f'== {name}: silent')
print(f'{len(res)} controls, {bad} with alarms')
sys.exit(1 if bad else 0)
