#!/venv/bin/python
"""Mechanical refactoring controls: rewrite the WHOLE package with a behaviour-preserving transformation and run every check on
the result.  Any VIOLATION / ANALYSIS-ERROR is a false alarm (a rule that depends on spelling rather than on structure).

  rename   every function-local variable (not parameters, not attributes, not globals) gets the suffix `_rn`
  swapif   every `if c: A else: B` (no elif chain) becomes `if not c: B else: A`
  both     rename + swapif
  nest     every guard clause `if c: <returns/raises/continues/breaks>` followed by more statements becomes `if c: ... else: <the rest>`
  ifexp    every `x = A if c else B` / `return A if c else B` statement becomes an if/else statement
  all      rename + nest + ifexp + swapif

usage: mech_controls.py <rename|swapif|both|nest|ifexp|all> [--suite] [--keep <dir>] [--only C07,C12]
  --suite   also run the repository's test suite on the transformed tree (own network namespace) to validate the transformation
"""
import ast
import os
import shutil
import subprocess
import sys
import tempfile
from concurrent.futures import ThreadPoolExecutor

V = os.path.dirname(os.path.dirname(os.path.abspath(__file__)))
FUNC = (ast.FunctionDef, ast.AsyncFunctionDef)


def bound_names(fn) -> set[str]:
    """Names bound in the function's own scope (not in nested defs / classes / comprehensions), excluding parameters."""
    out: set[str] = set()
    declared: set[str] = set()

    def targets(t):
        for n in ast.walk(t):
            if isinstance(n, ast.Name) and isinstance(n.ctx, (ast.Store, ast.Del)):
                out.add(n.id)

    def rec(node):
        for c in ast.iter_child_nodes(node):
            if isinstance(c, FUNC + (ast.ClassDef,)):
                out.add(c.name)
                continue
            if isinstance(c, ast.Lambda):
                continue
            if isinstance(c, (ast.ListComp, ast.SetComp, ast.DictComp, ast.GeneratorExp)):
                # the first iterable is evaluated in the enclosing scope; walrus targets leak into it
                for n in ast.walk(c):
                    if isinstance(n, ast.NamedExpr):
                        out.add(n.target.id)
                continue
            if isinstance(c, (ast.Global, ast.Nonlocal)):
                declared.update(c.names)
            if isinstance(c, ast.Name) and isinstance(c.ctx, (ast.Store, ast.Del)):
                out.add(c.id)
            if isinstance(c, ast.ExceptHandler) and c.name:
                out.add(c.name)
            if isinstance(c, (ast.Import, ast.ImportFrom)):
                for a in c.names:
                    out.add((a.asname or a.name).split('.')[0])
            rec(c)
    rec(fn)
    a = fn.args
    params = {x.arg for x in a.posonlyargs + a.args + a.kwonlyargs} | ({a.vararg.arg} if a.vararg else set()) | ({a.kwarg.arg} if a.kwarg else set())
    # nested function names and imports are kept (they may be referenced by string elsewhere); declared globals are not locals
    keep = {c.name for c in ast.walk(fn) if isinstance(c, FUNC + (ast.ClassDef,))}
    imported = {(a_.asname or a_.name).split('.')[0] for c in ast.walk(fn) if isinstance(c, (ast.Import, ast.ImportFrom)) for a_ in c.names}
    return {n for n in out if n not in params and n not in declared and n not in keep and n not in imported and not n.startswith('__')}


class Renamer(ast.NodeTransformer):
    """Rename the locals of every function, consistently inside nested scopes that close over them."""

    def __init__(self):
        self.stack: list[set[str]] = []

    def active(self, name: str) -> bool:
        return any(name in s for s in self.stack)

    def _func(self, node):
        own = bound_names(node) if not isinstance(node, ast.Lambda) else set()
        a = node.args
        params = {x.arg for x in a.posonlyargs + a.args + a.kwonlyargs} | ({a.vararg.arg} if a.vararg else set()) | ({a.kwarg.arg} if a.kwarg else set())
        # decorators and defaults belong to the enclosing scope
        if not isinstance(node, ast.Lambda):
            node.decorator_list = [self.visit(d) for d in node.decorator_list]
        a.defaults = [self.visit(d) for d in a.defaults]
        a.kw_defaults = [self.visit(d) if d is not None else None for d in a.kw_defaults]
        # a parameter shadows an outer local of the same name
        saved = self.stack
        self.stack = [s - params for s in self.stack] + [own]
        if isinstance(node, ast.Lambda):
            node.body = self.visit(node.body)
        else:
            node.body = [self.visit(s) for s in node.body]
        self.stack = saved
        return node
    visit_FunctionDef = visit_AsyncFunctionDef = visit_Lambda = _func

    def visit_ClassDef(self, node):
        saved = self.stack
        self.stack = []          # class bodies do not see function locals by name resolution rules (methods do, via closures: rare, skipped)
        self.generic_visit(node)
        self.stack = saved
        return node

    def _comp(self, node):
        # comprehension variables are local to the comprehension: rename them too (own scope)
        own = set()
        for g in node.generators:
            for n in ast.walk(g.target):
                if isinstance(n, ast.Name):
                    own.add(n.id)
        saved = self.stack
        # first iterable evaluated outside
        first = self.visit(node.generators[0].iter)
        self.stack = self.stack + [own]
        for i, g in enumerate(node.generators):
            g.target = self.visit(g.target)
            g.iter = first if i == 0 else self.visit(g.iter)
            g.ifs = [self.visit(x) for x in g.ifs]
        if isinstance(node, ast.DictComp):
            node.key = self.visit(node.key)
            node.value = self.visit(node.value)
        else:
            node.elt = self.visit(node.elt)
        self.stack = saved
        return node
    visit_ListComp = visit_SetComp = visit_DictComp = visit_GeneratorExp = _comp

    def visit_Name(self, node):
        if self.active(node.id):
            return ast.copy_location(ast.Name(node.id + '_rn', node.ctx), node)
        return node

    def visit_ExceptHandler(self, node):
        if node.name and self.active(node.name):
            node.name = node.name + '_rn'
        self.generic_visit(node)
        return node


class SwapIf(ast.NodeTransformer):
    def visit_If(self, node):
        self.generic_visit(node)
        if node.orelse and not (len(node.orelse) == 1 and isinstance(node.orelse[0], ast.If)):
            t = node.test
            nt = t.operand if isinstance(t, ast.UnaryOp) and isinstance(t.op, ast.Not) else ast.UnaryOp(ast.Not(), t)
            return ast.copy_location(ast.If(nt, node.orelse, node.body), node)
        return node


def _terminates(stmts) -> bool:
    if not stmts:
        return False
    st = stmts[-1]
    if isinstance(st, (ast.Return, ast.Raise, ast.Continue, ast.Break)):
        return True
    if isinstance(st, ast.If):
        return _terminates(st.body) and _terminates(st.orelse)
    return False


class Nest(ast.NodeTransformer):
    """`if c: <terminates>` + rest  ->  `if c: <terminates> else: rest` (only for plain ifs without else; the rest must not declare
    global/nonlocal and must not be empty)."""

    def _block(self, stmts):
        out = []
        for i, st in enumerate(stmts):
            if isinstance(st, ast.If) and not st.orelse and _terminates(st.body) and i + 1 < len(stmts) and \
                    not any(isinstance(x, (ast.Global, ast.Nonlocal)) for x in stmts[i + 1:]):
                st.orelse = self._block(stmts[i + 1:])
                out.append(st)
                return out
            out.append(st)
        return out

    def generic_visit(self, node):
        super().generic_visit(node)
        for fld in ('body', 'orelse', 'finalbody'):
            sub = getattr(node, fld, None)
            if isinstance(sub, list) and sub and isinstance(sub[0], ast.stmt) and not isinstance(node, ast.ClassDef) and not isinstance(node, ast.Module):
                setattr(node, fld, self._block(sub))
        return node


class IfExpToIf(ast.NodeTransformer):
    def _split(self, st, get, make):
        v = get(st)
        if isinstance(v, ast.IfExp):
            a, b = make(v.body), make(v.orelse)
            return ast.copy_location(ast.If(v.test, [ast.copy_location(a, st)], [ast.copy_location(b, st)]), st)
        return st

    def visit_Assign(self, st):
        if len(st.targets) == 1 and isinstance(st.targets[0], (ast.Name, ast.Attribute)) and isinstance(st.value, ast.IfExp):
            import copy
            return self._split(st, lambda s_: s_.value, lambda v_: ast.Assign([copy.deepcopy(st.targets[0])], v_, lineno=st.lineno))
        return st

    def visit_Return(self, st):
        if isinstance(st.value, ast.IfExp):
            return self._split(st, lambda s_: s_.value, lambda v_: ast.Return(v_))
        return st

    def visit_ClassDef(self, node):
        # class-level assignments stay (an if at class level is fine too, but dataclass field order tools may read the body)
        for i, st in enumerate(node.body):
            if isinstance(st, (ast.FunctionDef, ast.AsyncFunctionDef, ast.ClassDef)):
                node.body[i] = self.visit(st)
        return node


def transform(src: str, mode: str) -> str:
    tree = ast.parse(src)
    if mode in ('rename', 'both', 'all'):
        tree = Renamer().visit(tree)
    if mode in ('nest', 'all'):
        tree = Nest().visit(tree)
    if mode in ('ifexp', 'all'):
        tree = IfExpToIf().visit(tree)
    if mode in ('swapif', 'both', 'all'):
        tree = SwapIf().visit(tree)
    ast.fix_missing_locations(tree)
    return ast.unparse(tree) + '\n'


def main():
    mode = sys.argv[1]
    args = sys.argv[2:]
    only = args[args.index('--only') + 1].split(',') if '--only' in args else [f'C{i:02d}' for i in range(1, 21)]
    keep = args[args.index('--keep') + 1] if '--keep' in args else None
    d = keep or tempfile.mkdtemp(prefix=f'mech-{mode}-')
    root = os.path.join(d, 'r')
    if os.path.exists(root):
        shutil.rmtree(root)
    shutil.copytree('/repo', root, ignore=shutil.ignore_patterns('.git', '__pycache__', '*.pyc', '.pytest_cache'))
    n = 0
    for dp, dn, fns in os.walk(os.path.join(root, 'src', 'aioslsk')):
        for fn in fns:
            if fn.endswith('.py'):
                p = os.path.join(dp, fn)
                src = open(p).read()
                out = transform(src, mode)
                compile(out, p, 'exec')
                open(p, 'w').write(out)
                n += 1
    print(f'{mode}: {n} modules rewritten under {root}')
    rc = 0
    if '--suite' in args:
        r = subprocess.run(['unshare', '-n', 'sh', '-c', f'ip link set lo up; cd {root} && PYTHONPATH={root}/src /venv/bin/python -m pytest -q -p no:cacheprovider '
                            '--timeout=900 tests 2>&1 | tail -4'], capture_output=True, text=True)
        print('suite on the transformed tree:', r.stdout.strip().splitlines()[-1] if r.stdout.strip() else r.stderr[-300:])

    def run(pid):
        env = dict(os.environ, VERIF_EVIDENCE_DIR=os.path.join(d, 'ev-' + pid))
        c = subprocess.run([os.path.join(V, 'check'), pid, '--repo', root, '--tier', 'quick'], capture_output=True, text=True, env=env)
        lines = [l.strip() for l in c.stdout.splitlines() if 'violated: rule' in l or 'ANALYSIS-ERROR' in l or l.strip().startswith(('reason:', 'obligation:'))]
        return pid, c.returncode, lines
    with ThreadPoolExecutor(8) as ex:
        for pid, code, lines in ex.map(run, only):
            if code != 0:
                rc = 1
                print(f'== {pid}: FALSE ALARM (exit {code})')
                for l in lines[:12]:
                    print('    ' + l[:300])
            else:
                print(f'== {pid}: silent')
    if not keep:
        shutil.rmtree(d, ignore_errors=True)
    sys.exit(rc)


if __name__ == '__main__':
    main()
