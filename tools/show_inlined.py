#!/venv/bin/python
"""Debug: apply a control patch to a scratch copy and print a function as the rules see it (after the inlining pass)."""
import ast, os, shutil, subprocess, sys, tempfile
sys.path.insert(0, os.path.dirname(os.path.dirname(os.path.abspath(__file__))))
from sa.loader import Repo
patch, key = sys.argv[1], sys.argv[2]
d = tempfile.mkdtemp(prefix='show-')
try:
    root = os.path.join(d, 'r')
    shutil.copytree('/repo', root, ignore=shutil.ignore_patterns('.git', '__pycache__'))
    if patch != '-':
        subprocess.run(['git', 'apply', '--unsafe-paths', '--directory', root, os.path.abspath(patch)], check=True, cwd=d)
    r = Repo(root)
    print('\n'.join(r.inline_log))
    print(ast.unparse(r.funcs[key].node))
finally:
    shutil.rmtree(d, ignore_errors=True)
