#!/usr/bin/env python3
"""Print the sub-agent prompt for one property (used to seed independent breaking changes).
usage: mkprompt.py <ID> <worktree> [variant-hint]
Only the property text goes in; nothing else from /verif."""
import json, sys
pid, wt = sys.argv[1], sys.argv[2]
hint = sys.argv[3] if len(sys.argv) > 3 else ''
p = next(json.loads(l) for l in open('/verif/properties.jsonl') if json.loads(l)['id'] == pid)
mech = '\n'.join(f"  - {m['name']} ({m['where']})" for m in p['anchors']['mechanism'])
print(f"""You are helping test a verification tool. Work ONLY inside the git worktree {wt} (a checkout of the Python library JurgenR/aioslsk, an asyncio SoulSeek client; source under {wt}/src/aioslsk, tests under {wt}/tests). Do not read or write anything under /verif or /repo.

Here is a semantic property of the library that should hold:

ID: {p['id']} — {p['title']}
Statement: {p['statement']}
Quantified over: {p['quantifier']['text']}
Files involved: {', '.join(p['anchors']['files'])}
Mechanisms in the code meant to make it hold:
{mech}

YOUR TASK: produce ONE realistic change to the library source (under {wt}/src/aioslsk only — do not edit tests) that BREAKS this property while the code still imports/compiles and the ENTIRE existing test suite still passes. The change must be the kind of regression a maintainer could plausibly introduce (a refactor gone subtly wrong, a dropped guard, a swapped argument, a changed constant, a reordered await, a narrowed except, a missing cleanup, ...), small (roughly 1-15 changed lines), and it must need something specific to manifest: a particular interleaving, a crash or fault at a particular point, a multi-step sequence of operations, an unusual input, or two cooperating sites that each look fine alone — NOT something ordinary use would expose at once. {hint}

Also write a demonstration: a standalone pytest file {wt}/demo_{p['id']}.py (or small script) that exercises the REAL library code and FAILS with your change applied and PASSES on the original code (to check both ways use `git diff -- src > {wt}/my.patch; git checkout -- src; ...; git apply {wt}/my.patch` — do NOT use `git stash`: the stash is shared between worktrees). Keep it deterministic and fast (< 20 s).

How to run things (the library is imported from PYTHONPATH, so always set it):
  cd {wt} && PYTHONPATH={wt}/src /venv/bin/python -m pytest -q -p no:cacheprovider demo_{p['id']}.py
Full suite (takes ~60 s; the e2e tests bind fixed TCP ports, so ALWAYS run the full suite in its own network namespace exactly like this):
  cd {wt} && unshare -n sh -c 'ip link set lo up; PYTHONPATH={wt}/src /venv/bin/python -m pytest -q -p no:cacheprovider --timeout=900 -x tests 2>&1 | tail -5'
Targeted unit tests (tests/unit/...) can be run directly. There is no network; nothing can be installed.

When done, leave the worktree with your source change applied (uncommitted) and the demo file present, and reply with: (1) the output of `git -C {wt} diff -- src`, (2) one paragraph: what the change breaks and exactly what is needed for it to manifest, (3) the tail of the full-suite run WITH the change (must be all passed), (4) the demo's result with and without the change. If you cannot find a change that keeps the full suite green, say so plainly rather than weakening the requirement.""")
