#!/bin/bash
# usage: first_contact.sh <worktree> <property>   -- run the property's check on a sub-agent's worktree, print the verdict
cd /verif
out=$(./check $2 --repo $1 2>&1 | grep -v conda)
echo "$out" | grep -E "violated: rule|ANALYSIS-ERROR|reason:" | cut -c1-330 | head -12
echo "$out" | tail -1
