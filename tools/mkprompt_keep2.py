#!/venv/bin/python
"""Prompt for a 'refactoring control' sub-agent: behaviour-preserving edits of the code a property is anchored in.
The agent gets the property text and a scratch worktree, nothing from /verif's machinery."""
import json
import sys

pid, wt = sys.argv[1], sys.argv[2]
p = next(json.loads(l) for l in open('/verif/properties.jsonl') if json.loads(l)['id'] == pid)
anchors = json.dumps(p.get('anchors') or p.get('anchor') or '', indent=1)
print(f"""You are helping test a verification tool for the Python library aioslsk (asyncio SoulSeek client). You have your own scratch git worktree of the library at {wt} (source under {wt}/src/aioslsk, tests under {wt}/tests). Work ONLY inside {wt} and /tmp; never touch /repo or /verif.

This semantic property of the library HOLDS today and must KEEP holding:

PROPERTY {p['id']}: {p.get('title', '')}
{p.get('statement') or p.get('text') or p.get('description')}

Code it is anchored in: {anchors}

YOUR TASK: produce FIVE independent, realistic, BEHAVIOUR-PRESERVING changes to the library code that implements this property (the anchored functions and their close helpers; under {wt}/src/aioslsk only — do not edit tests). Each is the kind of edit a maintainer makes and that must NOT change what the code does for any input, schedule or failure point. For THIS batch use kinds of edits from the following list (all five different, at least two of the first four): (1) INLINE a small private helper method/function into its caller(s) and delete it (the opposite of extract-method); (2) split one function into two or three private functions along its natural phases, or move a block into a nested local function; (3) replace an if/elif chain by a dict lookup / table, or a table by an if/elif chain, or use a `match` statement; (4) replace explicit loops by any()/all()/sum()/min()/max()/set or dict operations or comprehensions (or the reverse), use `zip`/`enumerate`/itertools where the lengths are provably equal; (5) introduce or remove local aliases for attribute chains (`peer = self.parent`), the walrus operator, conditional expressions vs if-statements, `x if c else y`, `not (a or b)` vs `not a and not b`, chained comparisons, `is None` vs truthiness ONLY where provably equivalent for the type; (6) turn guard clauses into nested ifs or the reverse, swap the branches of if/else with a negated test, `for..else`, `try/else`, `contextlib.suppress`, `with` for try/finally where an equivalent context manager exists; (7) reorder methods, class attributes, dataclass fields that have defaults and are always passed by keyword, imports; rename private methods or private attributes CONSISTENTLY everywhere they are used (including tests only if the tests do not reference them — do not edit tests, so pick names the tests do not use); (8) change log messages, comments, docstrings, type annotations, f-string vs %-formatting in log calls. Every one must keep the property above true in ALL cases (think about cancellation, exceptions, interleavings at every await — do not move an await across a state change, do not widen or narrow what is caught, do not change evaluation order of effects). If you are not certain an edit is behaviour-preserving with respect to the property, do not use it.

Each change must be a separate patch against the pristine HEAD of the worktree: make the edit, save it with `git -C {wt} diff -- src > {wt}/keep1.patch` (keep2.patch ... keep5.patch), then `git -C {wt} checkout -- src` before starting the next one. (Do NOT use `git stash`: it is shared between worktrees.)

Each patch alone must keep the ENTIRE existing test suite green. The library is imported from PYTHONPATH, so always set it. Full suite (takes ~60 s; the e2e tests bind fixed TCP ports, so ALWAYS run it in its own network namespace exactly like this):
  cd {wt} && unshare -n sh -c 'ip link set lo up; PYTHONPATH={wt}/src /venv/bin/python -m pytest -q -p no:cacheprovider --timeout=900 -x tests 2>&1 | tail -5'
Targeted unit tests (tests/unit/...) can be run directly with PYTHONPATH={wt}/src /venv/bin/python -m pytest -q -p no:cacheprovider tests/unit/... . There is no network; nothing can be installed.

When done, leave the worktree pristine (`git checkout -- src`) with keep1.patch..keep5.patch present in {wt}, and reply with, for each patch: the file name, the diff, two sentences on why it cannot change behaviour relevant to the property, and the tail of the full-suite run with it applied (must be all passed).""")
