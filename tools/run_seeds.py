#!/venv/bin/python
"""Run every seeded breaking change through the checks.

For each /verif/seeded/<name>/: make a scratch worktree of /repo (HEAD; if the
patch no longer applies there, the commit it was made against), apply
patch.diff, run the check of its property (and, with --all, every check) with
--repo <scratch>, and compare the violation keys with those of the same tree
without the patch. A seed counts as DETECTED when the patched tree yields exit 1
and at least one violation key that the unpatched tree does not have.
Writes detected_by / applied_on into meta.json. Scratch trees live under
$TMPDIR and are removed afterwards. Never touches /repo's working tree.
"""
import json
import os
import subprocess
import sys
import tempfile

VERIF = os.path.dirname(os.path.dirname(os.path.abspath(__file__)))
REPO = '/repo'
ALL = [f'C{i:02d}' for i in range(1, 21)]


def sh(cmd, cwd=None):
    return subprocess.run(cmd, shell=True, cwd=cwd, capture_output=True, text=True)


def keys_for(pid: str, tree: str, evdir: str):
    env = dict(os.environ, VERIF_EVIDENCE_DIR=evdir)
    r = subprocess.run([os.path.join(VERIF, 'check'), pid, '--repo', tree], cwd=VERIF, capture_output=True, text=True, env=env)
    keys = set()
    vf = os.path.join(evdir, f'{pid}.violations.json')
    if r.returncode == 1 and os.path.exists(vf):
        keys = {f"{o['rule']}|{o['subject']}|{o['construct']}" for o in json.load(open(vf))}
    return r.returncode, keys, r.stdout


def main():
    only = [a for a in sys.argv[1:] if not a.startswith('--')]
    run_all = '--all' in sys.argv
    tmp = tempfile.mkdtemp(prefix='aioslsk-verif-seeds-')
    head = sh('git rev-parse HEAD', REPO).stdout.strip()
    results = []
    base_cache = {}
    try:
        for name in sorted(os.listdir(os.path.join(VERIF, 'seeded'))):
            d = os.path.join(VERIF, 'seeded', name)
            if not os.path.isdir(d) or (only and name not in only and name.split('-')[0] not in only):
                continue
            meta = json.load(open(os.path.join(d, 'meta.json')))
            pid = meta['property']
            patch = os.path.join(d, 'patch.diff')
            applied_on = None
            for label, commit in (('HEAD', head), ('seed-base', meta['confirmed']['base_commit'])):
                wt = os.path.join(tmp, f'{name}-{label}')
                sh(f'git worktree add -q --detach {wt} {commit}', REPO)
                r = sh(f'git apply {patch}', wt)
                if r.returncode != 0:
                    r = sh(f'git apply --3way {patch}', wt)
                if r.returncode == 0 and not sh('git diff --name-only --diff-filter=U', wt).stdout.strip():
                    applied_on = label
                    break
                sh(f'git worktree remove --force {wt}', REPO)
            if applied_on is None:
                results.append((name, pid, 'PATCH-DOES-NOT-APPLY', []))
                continue
            props = ALL if run_all else [pid]
            found = {}
            for p in props:
                bkey = (commit, p)
                if bkey not in base_cache:
                    bwt = os.path.join(tmp, f'base-{commit[:8]}')
                    if not os.path.isdir(bwt):
                        sh(f'git worktree add -q --detach {bwt} {commit}', REPO)
                    base_cache[bkey] = keys_for(p, bwt, os.path.join(tmp, 'ev-base'))[1]
                rc, keys, out = keys_for(p, wt, os.path.join(tmp, 'ev'))
                new = sorted(keys - base_cache[bkey])
                if rc == 1 and new:
                    found[p] = new
                elif rc == 2:
                    found.setdefault('_analysis_error', []).append(p + ': ' + ' / '.join(l for l in out.splitlines() if 'ANALYSIS-ERROR' in l)[:300])
            sh(f'git worktree remove --force {wt}', REPO)
            detected = pid in found
            meta['detected_by'] = found.get(pid, [])
            meta['also_flagged_under'] = {k: v for k, v in found.items() if k != pid}
            meta['applied_on'] = applied_on
            meta['detected'] = bool(detected)
            json.dump(meta, open(os.path.join(d, 'meta.json'), 'w'), indent=1)
            results.append((name, pid, 'DETECTED' if detected else 'MISSED', found.get(pid, []), applied_on, {k: v for k, v in found.items() if k != pid}))
    finally:
        for dd in os.listdir(tmp):
            if os.path.isdir(os.path.join(tmp, dd, '.git')) or os.path.isfile(os.path.join(tmp, dd, '.git')):
                sh(f'git worktree remove --force {os.path.join(tmp, dd)}', REPO)
        sh('git worktree prune', REPO)
        subprocess.run(['rm', '-rf', tmp])
    for r in results:
        print(*r)
    missed = [r for r in results if r[2] != 'DETECTED']
    print(f'{len(results) - len(missed)}/{len(results)} seeds detected')
    return 1 if missed else 0


if __name__ == '__main__':
    sys.exit(main())
