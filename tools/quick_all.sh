#!/bin/bash
# run the 20 quick checks in parallel; print one line per property
cd "$(dirname "$0")/.."
d=$(mktemp -d)
for i in $(seq -w 1 20); do
  ( VERIF_EVIDENCE_DIR=$d/ev ./check C$i --tier quick > $d/C$i.out 2>&1; echo "C$i exit $?" >> $d/summary ) &
done
wait
sort $d/summary
for i in $(seq -w 1 20); do grep -H "violated: rule\|ANALYSIS-ERROR\|Traceback" $d/C$i.out | head -5; done
rm -rf $d
