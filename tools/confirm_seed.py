#!/usr/bin/env python3
"""Confirm a sub-agent's breaking change and store it under /verif/seeded/<name>/.

usage: confirm_seed.py <worktree> <name> <property-id> "<what it needs to manifest>"

Checks, in the scratch worktree (never in /repo):
  1. demo FAILS with the change applied
  2. demo PASSES with the source change reverted (git stash -- src)
  3. the unedited test-suite passes with the change applied (under the suite lock)
Only if all three hold the seed is written: patch.diff, demo file, meta.json.
"""
import json, os, shutil, subprocess, sys, time

wt, name, pid, needs = sys.argv[1:5]
PY = '/venv/bin/python'
env = dict(os.environ, PYTHONPATH=f'{wt}/src')


def sh(cmd, **kw):
    return subprocess.run(cmd, shell=True, cwd=wt, env=env, capture_output=True, text=True, **kw)


demos = [f for f in os.listdir(wt) if f.startswith('demo_') and f.endswith('.py')]
if not demos:
    sys.exit('no demo file')
demo = demos[0]
diff = sh('git diff -- src').stdout
if not diff.strip():
    sys.exit('no source change')
if sh('git diff --name-only -- tests').stdout.strip():
    sys.exit('tests were edited')


def run_demo():
    if 'def test_' in open(os.path.join(wt, demo)).read():
        r = sh(f'{PY} -m pytest -q -p no:cacheprovider -x {demo} 2>&1 | tail -15', timeout=300)
        ok = ' passed' in r.stdout and ' failed' not in r.stdout and ' error' not in r.stdout
    else:
        r = sh(f'{PY} {demo} 2>&1 | tail -15; exit ${{PIPESTATUS[0]}}', timeout=300, executable='/bin/bash')
        ok = r.returncode == 0
    return ok, r.stdout[-1500:]


with_ok, with_out = run_demo()
# NOTE: `git stash` is shared between worktrees of one repository -> never use it here
open('/tmp/_seed_%s.patch' % name, 'w').write(diff)
sh('git checkout -- src')
try:
    without_ok, without_out = run_demo()
finally:
    sh('git apply /tmp/_seed_%s.patch' % name)
    os.remove('/tmp/_seed_%s.patch' % name)
assert sh('git diff -- src').stdout == diff, 're-applying the change failed'
t0 = time.time()
suite = sh(f'unshare -n sh -c "ip link set lo up; {PY} -m pytest -q -p no:cacheprovider --timeout=900 tests 2>&1 | tail -4"', timeout=1800)
suite_ok = ' passed' in suite.stdout and ' failed' not in suite.stdout and ' error' not in suite.stdout
res = {'demo_fails_with_change': not with_ok, 'demo_passes_without_change': without_ok,
       'suite_passes_with_change': suite_ok}
print(json.dumps(res), suite.stdout.strip().splitlines()[-1:] )
if not all(res.values()):
    print('--- with change:\n', with_out, '\n--- without:\n', without_out, '\n--- suite:\n', suite.stdout)
    sys.exit(1)
dst = f'/verif/seeded/{name}'
os.makedirs(dst, exist_ok=True)
open(f'{dst}/patch.diff', 'w').write(diff)
shutil.copy(os.path.join(wt, demo), f'{dst}/{demo}')
meta = {
    'property': pid, 'name': name, 'needs_to_manifest': needs,
    'files_changed': sorted({l[6:] for l in diff.splitlines() if l.startswith('+++ b/')}),
    'confirmed': {
        'demo_with_change': 'FAILS', 'demo_without_change': 'PASSES',
        'suite_with_change': suite.stdout.strip().splitlines()[-1],
        'how': f'cd <scratch worktree> && PYTHONPATH=<wt>/src {PY} -m pytest -q {demo} (with the change / with `git checkout -- src`); '
               f'unshare -n sh -c "ip link set lo up; {PY} -m pytest -q --timeout=900 tests" (own network namespace: the e2e tests bind fixed ports)',
        'base_commit': sh('git rev-parse HEAD').stdout.strip(),
    },
    'detected_by': None,
}
json.dump(meta, open(f'{dst}/meta.json', 'w'), indent=1)
print('stored', dst)
