#!/bin/bash
# usage: confirm_r2.sh <worktree> <name> <property> "<needs>" "<initially: detected|missed|analysis-error + note>"
cd /verif
python3 tools/confirm_seed.py "$1" "$2" "$3" "$4" > /tmp/confirm_$2.log 2>&1 && /venv/bin/python - "$2" "$5" <<'PY'
import json,sys
p=f'/verif/seeded/{sys.argv[1]}/meta.json'
m=json.load(open(p)); m['round']=2; m['initially']=sys.argv[2]
json.dump(m,open(p,'w'),indent=1)
PY
