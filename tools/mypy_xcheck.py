#!/venv/bin/python
"""Cross-check of the call resolution the rules rely on (sa/resolve.py, `ast` only) against mypy's typed tree.

mypy 2.x is part of the repository's own environment (/venv).  It is used as a library: the package is type-checked once
(`preserve_asts`, `export_types`), every call expression whose callee mypy resolves to a function / method / class of the package
is recorded as (file, line, column) -> set of fully qualified targets, and the same call sites are resolved with sa/resolve.py on
the UN-normalised tree (no desugaring, no inlining, so that positions agree).

  agree      both resolve the site and sa's answer contains mypy's target (sa may add overriding implementations in subclasses:
             it answers "which functions can run", mypy "which declaration is referenced")
  DISAGREE   both resolve the site and sa's answer does not contain mypy's target               -> the check fails (exit 1)
  sa-only    sa resolves (annotation of a parameter mypy sees as Any, unique method name), mypy does not: listed, not an error
  mypy-only  mypy resolves, sa does not: a call edge the rules do not see.  Listed with the callee; fails only if the callee
             is one of the functions a rule anchors on by name (tables/xcheck_anchors.json) -- an unseen call of such a function
             would let a who-may-call / must-pass rule pass vacuously

usage: mypy_xcheck.py [--repo /repo] [--json out.json] [-v]
"""
from __future__ import annotations
import ast
import json
import os
import sys
import time

HERE = os.path.dirname(os.path.dirname(os.path.abspath(__file__)))
sys.path.insert(0, HERE)
sys.dont_write_bytecode = True


# attributes that lead from a syntax node to a DEFINITION (possibly in another module): not children
SEMANTIC_LINKS = {'node', 'info', 'def_var', 'original_def', 'type', 'unanalyzed_type', 'type_annotation', 'upper_bound', 'values', 'defn', 'analyzed',
                  'type_guard', 'type_is', 'var', 'final_value', 'typeddict_type', 'tuple_type', 'special_alias', 'declared_metaclass', 'metaclass_type'}


def mypy_targets(repo_root: str) -> tuple[dict, dict]:
    """-> ({(rel, line, col): set(fullnames)}, stats)"""
    cwd = os.getcwd()
    os.chdir(os.path.join(repo_root, 'src'))
    try:
        from mypy import build
        from mypy.options import Options
        from mypy.find_sources import create_source_list
        from mypy.nodes import CallExpr, MemberExpr, NameExpr, RefExpr, FuncDef, Decorator, TypeInfo, OverloadedFuncDef, SuperExpr, Node
        from mypy.types import Instance, UnionType, TypeType, CallableType, get_proper_type, Overloaded, TypeVarType
        opts = Options()
        opts.preserve_asts = True
        opts.export_types = True
        opts.incremental = False
        opts.cache_dir = os.devnull
        opts.ignore_missing_imports = True
        opts.follow_imports = 'silent'
        opts.check_untyped_defs = True
        srcs = create_source_list(['aioslsk'], opts)
        res = build.build(srcs, opts)
    finally:
        os.chdir(cwd)
    types = res.types

    def func_fullname(n) -> set:
        if isinstance(n, Decorator):
            n = n.func
        if isinstance(n, FuncDef):
            return {n.fullname}
        if isinstance(n, OverloadedFuncDef):
            return {n.fullname}
        if isinstance(n, TypeInfo):
            init = n.get_method('__init__')
            if init is not None and getattr(init, 'fullname', '').startswith('aioslsk.'):
                return {init.fullname if not isinstance(init, Decorator) else init.func.fullname}
            return {n.fullname + '.__init__?'} if n.fullname.startswith('aioslsk.') else set()
        return set()

    def methods_of_type(t, name: str) -> set:
        t = get_proper_type(t)
        out = set()
        if isinstance(t, UnionType):
            for it in t.items:
                out |= methods_of_type(it, name)
            return out
        if isinstance(t, TypeVarType):
            return methods_of_type(t.upper_bound, name)
        if isinstance(t, Instance):
            sym = t.type.get(name)
            if sym is not None and sym.node is not None:
                out |= func_fullname(sym.node)
            return out
        if isinstance(t, TypeType):
            return methods_of_type(t.item, name)
        if isinstance(t, (CallableType, Overloaded)) and getattr(t, 'is_type_obj', lambda: False)():
            ti = t.type_object()
            sym = ti.get(name)
            if sym is not None and sym.node is not None:
                out |= func_fullname(sym.node)
        return out

    out: dict = {}
    stats = {'calls': 0, 'resolved_in_repo': 0}
    seen = set()

    def walk(node, rel):
        if id(node) in seen:
            return
        seen.add(id(node))
        if isinstance(node, CallExpr):
            stats['calls'] += 1
            cal = node.callee
            targets = set()
            if isinstance(cal, SuperExpr):
                info = cal.info
                if info is not None:
                    for base in info.mro[1:]:
                        sym = base.names.get(cal.name)
                        if sym is not None and sym.node is not None:
                            targets |= func_fullname(sym.node)
                            break
            elif isinstance(cal, RefExpr):
                if cal.node is not None and not isinstance(cal, MemberExpr):
                    targets |= func_fullname(cal.node)
                elif isinstance(cal, MemberExpr):
                    if cal.node is not None and isinstance(cal.node, (FuncDef, Decorator, TypeInfo, OverloadedFuncDef)):
                        targets |= func_fullname(cal.node)
                    else:
                        rt = types.get(cal.expr)
                        if rt is not None:
                            targets |= methods_of_type(rt, cal.name)
            targets = {t for t in targets if t.startswith('aioslsk.')}
            if targets:
                stats['resolved_in_repo'] += 1
                out[(rel, node.line, node.column, node.end_line, node.end_column)] = targets
        for attr in dir(type(node)):
            if attr.startswith('_') or attr in SEMANTIC_LINKS:
                continue
            try:
                v = getattr(node, attr)
            except Exception:
                continue
            if isinstance(v, Node):
                walk(v, rel)
            elif isinstance(v, (list, tuple)):
                for x in v:
                    if isinstance(x, Node):
                        walk(x, rel)
                    elif isinstance(x, (list, tuple)):
                        for y in x:
                            if isinstance(y, Node):
                                walk(y, rel)
    for name, f in res.files.items():
        if not name.startswith('aioslsk'):
            continue
        rel = os.path.relpath(f.path, 'aioslsk')
        for d in f.defs:
            walk(d, rel)
    stats['mypy_errors'] = len(res.errors)
    return out, stats


def sa_targets(repo_root: str) -> dict:
    os.environ['AIOSLSK_VERIF_NO_INLINE'] = '1'
    os.environ['AIOSLSK_VERIF_NO_DESUGAR'] = '1'
    from sa.engine import Engine
    from sa.astx import calls_in
    eng = Engine(repo_root)
    out = {}
    for fn in eng.repo.all_funcs():
        for c in calls_in(fn.node):
            cs = eng.res.callees(c, fn)
            key = (fn.module.rel, c.lineno, c.col_offset, c.end_lineno, c.end_col_offset)
            names = set()
            for f in cs:
                names.add(f'{f.module.dotted}.{f.qualname}'.replace('.<locals>', ''))
            out[key] = (names, ast.unparse(c.func)[:60], fn.qualname)
    global SA_FUNCS, SA_ANCESTORS
    SA_FUNCS = {f'{f.module.dotted}.{f.qualname}'.replace('.<locals>', '') for f in eng.repo.all_funcs()}
    def cname(ci):
        return f'{ci.module.dotted}.{getattr(ci, "qualname", None) or ci.name}'
    for cs in eng.repo.classes.values():
        for ci in cs:
            SA_ANCESTORS[cname(ci)] = {cname(b) for b in eng.repo.mro(ci)}
    return out


SA_FUNCS: set = set()
SA_ANCESTORS: dict = {}


def related(a: str, b: str) -> bool:
    """same function name on classes of one hierarchy (sa answers with the implementations that can run, mypy with the declaration referenced),
    or a nested function (the two sides qualify those differently)"""
    ca, cb = a.rsplit('.', 1)[0], b.rsplit('.', 1)[0]
    if a.rsplit('.', 1)[1] != b.rsplit('.', 1)[1]:
        return False
    if ca == cb or cb in SA_ANCESTORS.get(ca, ()) or ca in SA_ANCESTORS.get(cb, ()):
        return True
    if ca.startswith(cb + '.') or cb.startswith(ca + '.'):
        return True         # nested function: Network.get_listening_ports.get_port vs Network.get_port
    # structural (Protocol) declaration: mypy names the protocol class, sa the classes that implement it
    return cb.endswith('.Serializable') or ca.endswith('.Serializable')


def compare(sa: dict, mt: dict, verbose: bool = False):
    agree = disagree = sa_only = mypy_only = synth = 0
    sa_funcs = SA_FUNCS
    disagree = sa_only = mypy_only = 0
    dis, monly, sonly = [], [], []
    # subclasses: an sa answer may contain overrides of mypy's target in subclasses
    for key, targets in sorted(mt.items()):
        s = sa.get(key)
        if s is None:
            continue        # call inside a lambda / comprehension scope that sa attributes elsewhere, or a decorator
        names, txt, where = s
        mnames = {t.replace('.<locals>', '') for t in targets}
        if names:
            simple_m = {t.split('.')[-1] for t in mnames}
            if names & mnames:
                agree += 1
            elif all(any(related(n, m) for m in mnames) for n in names):
                # same method name on other classes: sa found implementations, mypy the declaration on a base / protocol class
                agree += 1
                if verbose:
                    print(f'  (same name, other class) {key}: sa {sorted(names)} mypy {sorted(mnames)}')
            else:
                disagree += 1
                dis.append((key, txt, where, sorted(names), sorted(mnames)))
        else:
            real = {t for t in mnames if not (t.endswith('.__init__') or t.endswith('.__init__?')) or t in sa_funcs}
            if not real:
                synth += 1          # constructor of a class without a written __init__ (dataclass / Exception / Enum): no code of the package runs
                continue
            mypy_only += 1
            monly.append((key, txt, where, sorted(real)))
    for key, (names, txt, where) in sorted(sa.items()):
        if names and key not in mt:
            sa_only += 1
            sonly.append((key, txt, where, sorted(names)))
    return agree, dis, monly, sonly, synth


def main():
    args = sys.argv[1:]
    repo = args[args.index('--repo') + 1] if '--repo' in args else os.environ.get('AIOSLSK_REPO', '/repo')
    verbose = '-v' in args
    t0 = time.time()
    sa = sa_targets(repo)
    mt, stats = mypy_targets(repo)
    # the comparator must notice a wrong answer: corrupt sa's answer at the first site both sides resolve and compare once more
    k0 = next((k for k in sorted(mt) if k in sa and sa[k][0] & {t.replace('.<locals>', '') for t in mt[k]}), None)
    if k0 is None:
        print('ANALYSIS-ERROR: resolver cross-check: no call site resolved by both sides')
        sys.stdout.flush()
        os._exit(2)
    bad = dict(sa)
    bad[k0] = ({'aioslsk.bogus.function'}, sa[k0][1], sa[k0][2])
    if len(compare(bad, mt)[1]) != len(compare(sa, mt)[1]) + 1:
        print('ANALYSIS-ERROR: resolver cross-check: the comparator did not notice a corrupted answer')
        sys.stdout.flush()
        os._exit(2)
    anchors = set(json.load(open(os.path.join(HERE, 'tables', 'xcheck_anchors.json')))['functions']) if os.path.exists(os.path.join(HERE, 'tables', 'xcheck_anchors.json')) else set()
    triage = json.load(open(os.path.join(HERE, 'tables', 'xcheck_triage.json'))) if os.path.exists(os.path.join(HERE, 'tables', 'xcheck_triage.json')) else {}
    agree, dis, monly, sonly, synth = compare(sa, mt, verbose)
    disagree, mypy_only, sa_only = len(dis), len(monly), len(sonly)
    print(f'call sites: sa {len(sa)}, mypy {stats["calls"]} ({stats["resolved_in_repo"]} resolved to the package); agree {agree}, DISAGREE {disagree}, '
          f'mypy-only {mypy_only}, sa-only {sa_only}, synthesised constructors {synth}; mypy errors {stats["mypy_errors"]}; {time.time() - t0:.1f}s')
    rc = 0
    for key, txt, where, a, b in dis:
        k = f'{key[0]}:{where}:{txt}'
        if k in triage.get('disagree', {}):
            continue
        rc = 1
        print(f'DISAGREE {key[0]}:{key[1]} in {where}: `{txt}` sa -> {a}; mypy -> {b}')
    bad_unseen = []
    for key, txt, where, b in monly:
        hit = [t for t in b if t.replace('aioslsk.', '', 1) in anchors or t in anchors]
        k = f'{key[0]}:{where}:{txt}'
        if hit and k not in triage.get('mypy_only', {}):
            bad_unseen.append((key, txt, where, b))
    for key, txt, where, b in bad_unseen:
        rc = 1
        print(f'UNSEEN-ANCHOR-CALL {key[0]}:{key[1]} in {where}: `{txt}` -> {b} (sa resolves nothing here)')
    if verbose:
        for key, txt, where, b in monly:
            print(f'  mypy-only {key[0]}:{key[1]} in {where}: `{txt}` -> {b}')
        for key, txt, where, a in sonly[:400]:
            print(f'  sa-only {key[0]}:{key[1]} in {where}: `{txt}` -> {a}')
    if '--json' in args:
        json.dump({'agree': agree, 'disagree': [list(map(str, d)) for d in dis], 'mypy_only': len(monly), 'sa_only': len(sonly), 'stats': stats},
                  open(args[args.index('--json') + 1], 'w'), indent=1)
    sys.stdout.flush()
    os._exit(rc)


if __name__ == '__main__':
    main()
