#!/usr/bin/env python3
"""Print the sub-agent prompt for the CORRECT twin of a round-4 seed (a refactoring that looked equivalent and was not):
the same refactoring done right = a behaviour-preserving control.
usage: mkprompt_twin.py <seed-name> <worktree>
The agent gets the property text, the seed's patch and description and its demo (all sub-agent products); nothing of the rules."""
import json, os, shutil, sys
name, wt = sys.argv[1], sys.argv[2]
sd = f'/verif/seeded/{name}'
m = json.load(open(f'{sd}/meta.json'))
pid = m['property']
p = next(json.loads(l) for l in open('/verif/properties.jsonl') if json.loads(l)['id'] == pid)
shutil.copy(f'{sd}/patch.diff', f'{wt}/seed.patch')
demo = next(f for f in os.listdir(sd) if f.startswith('demo_'))
shutil.copy(f'{sd}/{demo}', f'{wt}/{demo}')
print(f"""You are helping test a verification tool. Work ONLY inside the git worktree {wt} (a checkout of the Python library JurgenR/aioslsk, an asyncio SoulSeek client; source under {wt}/src/aioslsk, tests under {wt}/tests). Do not read or write anything under /verif or /repo.

Background. This property of the library should hold:

ID: {p['id']} — {p['title']}
Statement: {p['statement']}

Another developer wrote the patch {wt}/seed.patch. It READS like a behaviour-preserving refactoring, but one detail makes it NOT equivalent to the original code, and it breaks the property above. What goes wrong: {m['needs_to_manifest']}
The file {wt}/{demo} demonstrates the defect: it FAILS with seed.patch applied and PASSES on the original code.

YOUR TASK: write the CORRECT version of that refactoring. Keep the intent and the shape of seed.patch — the same functions are touched, the same kind of restructuring is done (the same helper is extracted or inlined, the same loop becomes a comprehension / next() / table lookup, the same conditions are merged, the same statements are moved, ...) — but repair the detail that made it non-equivalent, so that the resulting code behaves EXACTLY like the original code on every input, schedule and fault (same awaits in the same order, same exceptions, same side effects). Do not simply revert to the original code: the result must still be recognisably the refactoring that seed.patch attempted, only done right. If a literal repair of seed.patch is impossible without giving up its shape, keep as much of the shape as you can and say what you had to give up.

Steps: start from the original code (the worktree is clean; `git apply seed.patch` if you want to start from the broken version). Edit only files under {wt}/src/aioslsk (never tests). Then verify:
  1. the demo passes:  cd {wt} && PYTHONPATH={wt}/src /venv/bin/python -m pytest -q -p no:cacheprovider {demo}
  2. the full suite passes (takes ~60 s; the e2e tests bind fixed TCP ports, so ALWAYS run it in its own network namespace exactly like this):
     cd {wt} && unshare -n sh -c 'ip link set lo up; PYTHONPATH={wt}/src /venv/bin/python -m pytest -q -p no:cacheprovider --timeout=900 -x tests 2>&1 | tail -5'
  3. re-read your diff against the original once more and argue, construct by construct, why it is equivalent (evaluation order, exceptions, awaits/suspension points, aliasing, snapshots vs live objects, operator precedence).
Do NOT use `git stash` (the stash is shared between worktrees). There is no network; nothing can be installed.

When done, save your change as {wt}/twin.patch (`git -C {wt} diff -- src > {wt}/twin.patch`), leave it applied (uncommitted), and reply with: (1) the content of twin.patch, (2) the equivalence argument, (3) the tail of the full-suite run, (4) the demo result. If you find that your twin is NOT exactly equivalent in some corner, say so plainly.""")
